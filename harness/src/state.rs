//! System under test: state broadcast channel (borrowed and shared)

use crate::engine::Sut;
use crate::infra::*;
use futures_core::future::FusedFuture;
use futures_intrusive::channel::shared::{
    generic_state_broadcast_channel, GenericStateReceiver, GenericStateSender, StateReceiveFuture as SharedFut,
    StateVerifPeek,
};
use futures_intrusive::channel::{ChannelSendError, CloseStatus, GenericStateBroadcastChannel, StateId, StateReceiveFuture};
use futures_intrusive::verif::{NodeInfo, Snapshot};
use lock_api::RawMutex;
use serde_json::{json, Map, Value};
use std::collections::HashMap;
use std::future::Future;
use std::task::{Context, Poll};

pub trait StateFlavour: Sized + 'static {
    type Fut: Future<Output = Option<(StateId, u32)>> + FusedFuture;
    const SHARED: bool;
    fn new() -> Self;
    fn send(&self, v: u32) -> Option<Result<(), ChannelSendError<u32>>>;
    fn close(&self) -> Option<CloseStatus>;
    fn receive(&self, id: StateId) -> Option<Self::Fut>;
    fn try_receive(&self, id: StateId) -> Option<Option<(StateId, u32)>>;
    fn snapshot(&self) -> Option<Snapshot>;
    fn node(f: &Self::Fut) -> NodeInfo;
    fn handle_op(&mut self, _op: &str) -> bool {
        false
    }
    fn handles(&self) -> (usize, usize) {
        (1, 1)
    }
    fn destroy(&mut self) -> bool;
}

pub struct BorrowedState<M: RawMutex + 'static> {
    raw: *mut GenericStateBroadcastChannel<M, u32>,
}
impl<M: RawMutex + 'static> BorrowedState<M> {
    fn ch(&self) -> Option<&'static GenericStateBroadcastChannel<M, u32>> {
        if self.raw.is_null() {
            None
        } else {
            Some(unsafe { &*self.raw })
        }
    }
}
impl<M: RawMutex + 'static> Drop for BorrowedState<M> {
    fn drop(&mut self) {
        self.destroy();
    }
}
impl<M: RawMutex + 'static> StateFlavour for BorrowedState<M> {
    type Fut = StateReceiveFuture<'static, M, u32>;
    const SHARED: bool = false;
    fn new() -> Self {
        BorrowedState { raw: Box::into_raw(Box::new(GenericStateBroadcastChannel::new())) }
    }
    fn send(&self, v: u32) -> Option<Result<(), ChannelSendError<u32>>> {
        Some(self.ch()?.send(v))
    }
    fn close(&self) -> Option<CloseStatus> {
        Some(self.ch()?.close())
    }
    fn receive(&self, id: StateId) -> Option<Self::Fut> {
        Some(self.ch()?.receive(id))
    }
    fn try_receive(&self, id: StateId) -> Option<Option<(StateId, u32)>> {
        Some(self.ch()?.try_receive(id))
    }
    fn snapshot(&self) -> Option<Snapshot> {
        Some(self.ch()?.verif_snapshot())
    }
    fn node(f: &Self::Fut) -> NodeInfo {
        f.verif_node()
    }
    fn destroy(&mut self) -> bool {
        if self.raw.is_null() {
            return false;
        }
        let p = self.raw;
        self.raw = std::ptr::null_mut();
        let _ = lib(|| unsafe { drop(Box::from_raw(p)) });
        true
    }
}

pub struct SharedState<M: RawMutex + 'static> {
    tx: Vec<GenericStateSender<M, u32>>,
    rx: Vec<GenericStateReceiver<M, u32>>,
    peek: Option<StateVerifPeek<M, u32>>,
}
impl<M: RawMutex + 'static> StateFlavour for SharedState<M> {
    type Fut = SharedFut<M, u32>;
    const SHARED: bool = true;
    fn new() -> Self {
        let (s, r) = generic_state_broadcast_channel::<M, u32>();
        let peek = s.verif_peek();
        let mut tx = Vec::with_capacity(16);
        let mut rx = Vec::with_capacity(16);
        tx.push(s);
        rx.push(r);
        SharedState { tx, rx, peek: Some(peek) }
    }
    fn send(&self, v: u32) -> Option<Result<(), ChannelSendError<u32>>> {
        Some(self.tx.first()?.send(v))
    }
    fn close(&self) -> Option<CloseStatus> {
        None
    }
    fn receive(&self, id: StateId) -> Option<Self::Fut> {
        Some(self.rx.first()?.receive(id))
    }
    fn try_receive(&self, id: StateId) -> Option<Option<(StateId, u32)>> {
        Some(self.rx.first()?.try_receive(id))
    }
    fn snapshot(&self) -> Option<Snapshot> {
        Some(self.peek.as_ref()?.verif_snapshot())
    }
    fn node(f: &Self::Fut) -> NodeInfo {
        f.verif_node()
    }
    fn handle_op(&mut self, op: &str) -> bool {
        match op {
            "clone_sender" => match self.tx.first() {
                Some(s) => {
                    let c = s.clone();
                    self.tx.push(c);
                    true
                }
                None => false,
            },
            "drop_sender" => self.tx.pop().map(drop).is_some(),
            "clone_receiver" => match self.rx.first() {
                Some(s) => {
                    let c = s.clone();
                    self.rx.push(c);
                    true
                }
                None => false,
            },
            "drop_receiver" => self.rx.pop().map(drop).is_some(),
            _ => false,
        }
    }
    fn handles(&self) -> (usize, usize) {
        (self.tx.len(), self.rx.len())
    }
    fn destroy(&mut self) -> bool {
        if self.peek.is_none() || !self.tx.is_empty() || !self.rx.is_empty() {
            return false;
        }
        let p = self.peek.take();
        let _ = lib(move || drop(p));
        true
    }
}

pub struct StateSut<F: StateFlavour> {
    ch: F,
    futs: Slots<F::Fut>,
    wk: Vec<u8>,
    maxv: u32,
    maxh: usize,
    max_sid: u64,
    ids: HashMap<u64, StateId>,
    dead: bool,
    last_view: std::cell::RefCell<Value>,
}

const ST: [&str; 2] = ["unreg", "reg"];

impl<F: StateFlavour> StateSut<F> {
    pub fn new(consts: &Value) -> Self {
        let k = consts["K"].as_u64().unwrap_or(3) as usize;
        let wk = consts["Wk"]
            .as_array()
            .map(|a| a.iter().map(|x| (x.as_u64().unwrap_or(1) - 1) as u8).collect())
            .unwrap_or(vec![0, 1]);
        let mut ids = HashMap::new();
        ids.insert(0, StateId::new());
        StateSut {
            ch: F::new(),
            futs: Slots::new(k),
            wk,
            maxv: consts["MaxV"].as_u64().unwrap_or(2) as u32,
            maxh: consts["MaxH"].as_u64().unwrap_or(1) as usize,
            max_sid: consts["MaxSid"].as_u64().unwrap_or(1000),
            ids,
            dead: false,
            last_view: std::cell::RefCell::new(Value::Null),
        }
    }
    fn learn(&mut self, id: StateId) -> u64 {
        let n = id.verif_value();
        self.ids.insert(n, id);
        n
    }
    fn cur_sid(&self) -> u64 {
        self.ch
            .snapshot()
            .map_or(0, |s| s.flags.iter().find(|(n, _)| *n == "state_id").map_or(0, |(_, v)| *v))
    }
}

impl<F: StateFlavour> Drop for StateSut<F> {
    fn drop(&mut self) {
        self.futs.drop_live();
        while self.ch.handle_op("drop_sender") {}
        while self.ch.handle_op("drop_receiver") {}
        self.ch.destroy();
    }
}

impl<F: StateFlavour> Sut for StateSut<F> {
    fn apply(&mut self, e: &Value) -> Option<Value> {
        if self.dead {
            return None;
        }
        let op = e["op"].as_str()?;
        Some(match op {
            "send" => {
                let v = e["v"].as_u64()? as u32;
                let ch = &self.ch;
                match lib(|| ch.send(v)) {
                    Ok(Some(Ok(()))) => json!({"op": op, "v": v, "res": "ok", "rv": 0}),
                    Ok(Some(Err(ChannelSendError(x)))) => json!({"op": op, "v": v, "res": "err", "rv": x}),
                    Ok(None) => return None,
                    Err(_) => json!({"op": op, "v": v, "res": "panic"}),
                }
            }
            "close" => {
                let ch = &self.ch;
                match lib(|| ch.close()) {
                    Ok(Some(CloseStatus::NewlyClosed)) => json!({"op": op, "res": "newly"}),
                    Ok(Some(CloseStatus::AlreadyClosed)) => json!({"op": op, "res": "already"}),
                    Ok(None) => return None,
                    Err(_) => json!({"op": op, "res": "panic"}),
                }
            }
            "try_recv" => {
                let idn = e["id"].as_u64()?;
                let id = *self.ids.get(&idn)?;
                let ch = &self.ch;
                match lib(|| ch.try_receive(id)) {
                    Ok(Some(Some((sid, v)))) => {
                        let n = self.learn(sid);
                        json!({"op": op, "id": idn, "res": "some", "sid": n, "v": v})
                    }
                    Ok(Some(None)) => json!({"op": op, "id": idn, "res": "none", "sid": 0, "v": 0}),
                    Ok(None) => return None,
                    Err(_) => json!({"op": op, "id": idn, "res": "panic"}),
                }
            }
            "create" => {
                let r = slot_of(e, "r");
                let idn = e["id"].as_u64()?;
                let id = *self.ids.get(&idn)?;
                if r == 0 || r > self.futs.k() || self.futs.is_live(r) {
                    return None;
                }
                let ch = &self.ch;
                match lib(|| ch.receive(id)) {
                    Ok(Some(f)) => {
                        self.futs.put(r, f);
                        json!({"op": op, "r": r, "id": idn})
                    }
                    Ok(None) => return None,
                    Err(_) => json!({"op": op, "r": r, "id": idn, "res": "panic"}),
                }
            }
            "poll" | "poll_done" => {
                let r = slot_of(e, "r");
                let term = self.futs.get(r)?.is_terminated();
                if (op == "poll") == term {
                    return None;
                }
                let vr = variant_of(&e["w"]);
                let waker = waker(0, r, vr);
                let mut cx = Context::from_waker(&waker);
                let fut = self.futs.get_pin(r)?;
                let out = lib(move || fut.poll(&mut cx));
                let (res, sid, v) = match out {
                    Ok(Poll::Ready(Some((sid, v)))) => ("some", self.learn(sid), v),
                    Ok(Poll::Ready(None)) => ("none", 0, 0),
                    Ok(Poll::Pending) => ("pending", 0, 0),
                    Err(_) => ("panic", 0, 0),
                };
                if op == "poll" {
                    json!({"op": op, "r": r, "w": variant_name(vr), "res": res, "sid": sid, "v": v})
                } else {
                    json!({"op": op, "r": r, "res": res})
                }
            }
            "drop" => {
                let r = slot_of(e, "r");
                if !self.futs.is_live(r) {
                    return None;
                }
                match self.futs.drop_slot(r) {
                    Ok(()) => json!({"op": op, "r": r}),
                    Err(_) => json!({"op": op, "r": r, "res": "panic"}),
                }
            }
            "clone_sender" | "drop_sender" | "clone_receiver" | "drop_receiver" => {
                let ch = &mut self.ch;
                match lib(|| ch.handle_op(op)) {
                    Ok(true) => json!({"op": op}),
                    Ok(false) => return None,
                    Err(_) => json!({"op": op, "res": "panic"}),
                }
            }
            "destroy" => {
                if !self.futs.live_slots().is_empty() {
                    return None;
                }
                let _ = self.view();
                if !self.ch.destroy() {
                    return None;
                }
                self.dead = true;
                json!({"op": op})
            }
            _ => return None,
        })
    }

    fn view(&self) -> Value {
        if self.dead {
            let mut v = self.last_view.borrow().clone();
            v["dead"] = json!(true);
            v["hasval"] = json!(false);
            return v;
        }
        let snap = match self.ch.snapshot() {
            Some(s) => s,
            None => return json!({"dead": true}),
        };
        let k = self.futs.k();
        let mut table = Vec::new();
        let mut st = vec![json!("none"); k];
        let mut task = vec![json!("-"); k];
        let mut term = vec![json!(false); k];
        let mut want = vec![json!(0); k];
        for s in self.futs.live_slots() {
            let fut = self.futs.get(s).unwrap();
            let n = F::node(fut);
            table.push((n.addr, s));
            st[s - 1] = json!(ST.get(n.state as usize).copied().unwrap_or("?"));
            task[s - 1] = json!(task_name(n.waker, 0, s));
            term[s - 1] = json!(fut.is_terminated());
            want[s - 1] = json!(n.extra);
        }
        let flag = |name: &str| snap.flags.iter().find(|(n, _)| *n == name).map_or(0, |(_, v)| *v);
        let qa = |name: &str| -> Vec<usize> {
            snap.queues
                .iter()
                .find(|(n, _)| *n == name)
                .map_or(vec![], |(_, v)| v.iter().map(|x| x.addr).collect())
        };
        let q = checked_queue(&qa("waiters"), &qa("waiters_rev"), &table);
        let mut v = json!({"closed": flag("is_closed") != 0, "sid": flag("state_id"), "hasval": flag("has_value") != 0,
                           "st": st, "want": want, "task": task, "q": q, "term": term, "dead": false});
        if F::SHARED {
            v["senders"] = json!(flag("senders"));
            v["receivers"] = json!(flag("receivers"));
        }
        *self.last_view.borrow_mut() = v.clone();
        v
    }

    fn extras(&self, view: &Value) -> Map<String, Value> {
        let mut m = Map::new();
        let term: Vec<Value> = view["term"]
            .as_array()
            .map(|a| {
                a.iter()
                    .enumerate()
                    .filter(|(_, b)| b.as_bool() == Some(true))
                    .map(|(i, _)| json!(i + 1))
                    .collect()
            })
            .unwrap_or_default();
        m.insert("term".into(), Value::Array(term));
        m.insert("closed".into(), view["closed"].clone());
        m.insert("q".into(), view["q"].clone());
        m.insert("nst".into(), view["st"].clone());
        m
    }

    fn wake_inlock(&self, _e: &Value) -> bool {
        true
    }

    fn may_alloc(&self, e: &Value) -> bool {
        e["op"] == "destroy"
    }

    fn cleanup_ops(&self) -> Vec<Value> {
        if self.dead {
            return Vec::new();
        }
        let mut v = Vec::new();
        for s in self.futs.live_slots() {
            v.push(json!({"op": "drop", "r": s}));
        }
        let (hs, hr) = self.ch.handles();
        if F::SHARED {
            for _ in 0..hs {
                v.push(json!({"op": "drop_sender"}));
            }
            for _ in 0..hr {
                v.push(json!({"op": "drop_receiver"}));
            }
        }
        v.push(json!({"op": "destroy"}));
        v
    }

    fn random_op(&self, rng: &mut Rng) -> Value {
        let k = self.futs.k();
        let (hs, hr) = self.ch.handles();
        let known: Vec<u64> = self.ids.keys().copied().collect();
        for _attempt in 0..400 {
            let r = 1 + rng.below(k);
            let w = variant_name(self.wk[rng.below(self.wk.len())]);
            let id = known[rng.below(known.len())];
            match rng.below(24) {
                0..=3 => {
                    if !self.futs.is_live(r) && hr > 0 {
                        return json!({"op": "create", "r": r, "id": id});
                    }
                }
                4..=9 => {
                    if let Some(f) = self.futs.get(r) {
                        if !f.is_terminated() {
                            return json!({"op": "poll", "r": r, "w": w});
                        } else if rng.below(8) == 0 {
                            return json!({"op": "poll_done", "r": r});
                        }
                    }
                }
                10 | 11 => {
                    if self.futs.is_live(r) {
                        return json!({"op": "drop", "r": r});
                    }
                }
                12..=14 => {
                    if hs > 0 && self.cur_sid() < self.max_sid {
                        return json!({"op": "send", "v": 1 + rng.below(self.maxv as usize)});
                    }
                }
                15 | 16 => {
                    if hr > 0 {
                        return json!({"op": "try_recv", "id": id});
                    }
                }
                17 => {
                    if !F::SHARED && rng.below(5) == 0 {
                        return json!({"op": "close"});
                    }
                }
                18 => {
                    if F::SHARED && hs > 0 && hs < self.maxh {
                        return json!({"op": "clone_sender"});
                    }
                }
                19 => {
                    if F::SHARED && hs > 0 && rng.below(4) == 0 {
                        return json!({"op": "drop_sender"});
                    }
                }
                20 => {
                    if F::SHARED && hr > 0 && hr < self.maxh {
                        return json!({"op": "clone_receiver"});
                    }
                }
                21 => {
                    if F::SHARED && hr > 0 && rng.below(4) == 0 {
                        return json!({"op": "drop_receiver"});
                    }
                }
                _ => {}
            }
        }
        json!({"op": "idle"})
    }
}
