//! System under test: GenericTimerService with a MockClock

use crate::engine::Sut;
use crate::infra::*;
use futures_core::future::FusedFuture;
use futures_intrusive::timer::{
    GenericTimerService, LocalTimer, LocalTimerFuture, MockClock, Timer, TimerFuture,
};
use futures_intrusive::verif::NodeInfo;
use lock_api::RawMutex;
use serde_json::{json, Map, Value};
use std::future::Future;
use std::marker::PhantomData;
use std::task::{Context, Poll};
use std::time::Duration;

const INF: u64 = 2_000_000_000;

pub trait TimerFlavour: 'static {
    type M: RawMutex + 'static;
    type Fut: Future<Output = ()> + FusedFuture;
    fn deadline(t: &'static GenericTimerService<Self::M>, at: u64) -> Self::Fut;
    fn delay(t: &'static GenericTimerService<Self::M>, d: Duration) -> Self::Fut;
    fn node(f: &Self::Fut) -> NodeInfo;
}

/// Futures obtained through the `LocalTimer` trait
pub struct ViaLocal<M>(PhantomData<M>);
impl<M: RawMutex + 'static> TimerFlavour for ViaLocal<M> {
    type M = M;
    type Fut = LocalTimerFuture<'static>;
    fn deadline(t: &'static GenericTimerService<M>, at: u64) -> Self::Fut {
        LocalTimer::deadline(t, at)
    }
    fn delay(t: &'static GenericTimerService<M>, d: Duration) -> Self::Fut {
        LocalTimer::delay(t, d)
    }
    fn node(f: &Self::Fut) -> NodeInfo {
        f.verif_node()
    }
}

/// Futures obtained through the `Timer` trait (Send futures)
pub struct ViaSync<M>(PhantomData<M>);
impl<M: RawMutex + Sync + 'static> TimerFlavour for ViaSync<M> {
    type M = M;
    type Fut = TimerFuture<'static>;
    fn deadline(t: &'static GenericTimerService<M>, at: u64) -> Self::Fut {
        Timer::deadline(t, at)
    }
    fn delay(t: &'static GenericTimerService<M>, d: Duration) -> Self::Fut {
        Timer::delay(t, d)
    }
    fn node(f: &Self::Fut) -> NodeInfo {
        f.verif_node()
    }
}

pub struct TimerSut<F: TimerFlavour> {
    raw: *mut GenericTimerService<F::M>,
    clock: &'static MockClock,
    futs: Slots<F::Fut>,
    wk: Vec<u8>,
    deadlines: Vec<u64>,
    delays: Vec<u64>,
    max_now: u64,
}

const ST: [&str; 3] = ["unreg", "reg", "expired"];

fn list_u64(v: &Value, d: Vec<u64>) -> Vec<u64> {
    v.as_array().map(|a| a.iter().map(|x| x.as_u64().unwrap_or(0)).collect()).unwrap_or(d)
}

impl<F: TimerFlavour> TimerSut<F> {
    pub fn new(consts: &Value) -> Self {
        let k = consts["K"].as_u64().unwrap_or(3) as usize;
        let wk = consts["Wk"]
            .as_array()
            .map(|a| a.iter().map(|x| (x.as_u64().unwrap_or(1) - 1) as u8).collect())
            .unwrap_or(vec![0, 1]);
        let clock: &'static MockClock = Box::leak(Box::new(MockClock::new()));
        let raw = Box::into_raw(Box::new(GenericTimerService::<F::M>::new(clock)));
        TimerSut {
            raw,
            clock,
            futs: Slots::new(k),
            wk,
            deadlines: list_u64(&consts["Deadlines"], vec![1, 2, 3]),
            delays: list_u64(&consts["Delays"], vec![1]),
            max_now: consts["MaxNow"].as_u64().unwrap_or(3),
        }
    }
    fn t(&self) -> &'static GenericTimerService<F::M> {
        unsafe { &*self.raw }
    }
}

impl<F: TimerFlavour> Drop for TimerSut<F> {
    fn drop(&mut self) {
        self.futs.drop_live();
        unsafe { drop(Box::from_raw(self.raw)) };
    }
}

fn cap(x: u64) -> u64 {
    x.min(INF)
}

impl<F: TimerFlavour> Sut for TimerSut<F> {
    fn apply(&mut self, e: &Value) -> Option<Value> {
        let op = e["op"].as_str()?;
        let t = self.t();
        match op {
            "set_clock" => {
                let at = e["t"].as_u64()?;
                self.clock.set_time(at);
                Some(json!({"op": "set_clock", "t": at}))
            }
            "create" => {
                let f = slot_of(e, "f");
                let at = e["t"].as_u64()?;
                if f == 0 || f > self.futs.k() || self.futs.is_live(f) {
                    return None;
                }
                let real = if at >= INF { u64::MAX } else { at };
                match lib(|| F::deadline(t, real)) {
                    Ok(fut) => {
                        self.futs.put(f, fut);
                        Some(json!({"op": "create", "f": f, "t": at}))
                    }
                    Err(_) => Some(json!({"op": "create", "f": f, "t": at, "res": "panic"})),
                }
            }
            "delay" => {
                let f = slot_of(e, "f");
                let d = e["d"].as_u64()?;
                if f == 0 || f > self.futs.k() || self.futs.is_live(f) {
                    return None;
                }
                // d >= INF stands for durations at and beyond the u64 millisecond range
                let real = match d {
                    x if x < INF => Duration::from_millis(x),
                    x if x == INF => Duration::from_millis(u64::MAX),
                    x if x == INF + 1 => Duration::from_secs(1 << 61),
                    x if x == INF + 2 => Duration::from_secs((1 << 61) + 1),
                    x if x == INF + 3 => Duration::from_secs(u64::MAX / 1000 + 7),
                    _ => Duration::MAX,
                };
                match lib(|| F::delay(t, real)) {
                    Ok(fut) => {
                        let val = cap(F::node(&fut).extra);
                        self.futs.put(f, fut);
                        Some(json!({"op": "delay", "f": f, "d": d, "res": "ok", "val": val}))
                    }
                    Err(_) => Some(json!({"op": "delay", "f": f, "d": d, "res": "panic"})),
                }
            }
            "poll" | "poll_done" => {
                let f = slot_of(e, "f");
                let term = self.futs.get(f)?.is_terminated();
                if (op == "poll") == term {
                    return None;
                }
                let v = variant_of(&e["w"]);
                let waker = waker(0, f, v);
                let mut cx = Context::from_waker(&waker);
                let fut = self.futs.get_pin(f)?;
                let res = match lib(move || fut.poll(&mut cx)) {
                    Ok(Poll::Ready(())) => "ready",
                    Ok(Poll::Pending) => "pending",
                    Err(_) => "panic",
                };
                if op == "poll" {
                    Some(json!({"op": op, "f": f, "w": variant_name(v), "res": res}))
                } else {
                    Some(json!({"op": op, "f": f, "res": res}))
                }
            }
            "drop" => {
                let f = slot_of(e, "f");
                if !self.futs.is_live(f) {
                    return None;
                }
                match self.futs.drop_slot(f) {
                    Ok(()) => Some(json!({"op": "drop", "f": f})),
                    Err(_) => Some(json!({"op": "drop", "f": f, "res": "panic"})),
                }
            }
            "check" => match lib(|| t.check_expirations()) {
                Ok(()) => Some(json!({"op": "check"})),
                Err(_) => Some(json!({"op": "check", "res": "panic"})),
            },
            "next_exp" => match lib(|| t.next_expiration()) {
                Ok(Some(v)) => Some(json!({"op": "next_exp", "res": "some", "val": cap(v)})),
                Ok(None) => Some(json!({"op": "next_exp", "res": "none", "val": 0})),
                Err(_) => Some(json!({"op": "next_exp", "res": "panic"})),
            },
            _ => None,
        }
    }

    fn view(&self) -> Value {
        let k = self.futs.k();
        let snap = self.t().verif_snapshot();
        let mut table: Vec<(usize, usize)> = Vec::new();
        let mut nodes: Vec<(usize, NodeInfo)> = Vec::new();
        let mut term = vec![json!(false); k];
        for s in self.futs.live_slots() {
            let fut = self.futs.get(s).unwrap();
            let n = F::node(fut);
            table.push((n.addr, s));
            term[s - 1] = json!(fut.is_terminated());
            nodes.push((s, n));
        }
        let map = |a: usize| -> i64 {
            if a == 0 {
                0
            } else {
                table.iter().find(|(x, _)| *x == a).map_or(-1, |(_, s)| *s as i64)
            }
        };
        let mut st = vec![json!("none"); k];
        let mut task = vec![json!("-"); k];
        let mut expiry = vec![json!(0); k];
        let mut links = vec![vec![json!(0); k]; 4];
        for (s, n) in &nodes {
            st[s - 1] = json!(ST.get(n.state as usize).copied().unwrap_or("?"));
            task[s - 1] = json!(task_name(n.waker, 0, *s));
            expiry[s - 1] = json!(cap(n.extra));
            for i in 0..4 {
                links[i][s - 1] = json!(map(n.links[i]));
            }
        }
        let flag = |name: &str| snap.flags.iter().find(|(n, _)| *n == name).map_or(0, |(_, v)| *v);
        let mut q: Vec<i64> = snap
            .queues
            .iter()
            .find(|(n, _)| *n == "heap")
            .map_or(vec![], |(_, v)| v.iter().map(|x| map(x.addr).max(0)).collect());
        q.sort();
        let root = map(flag("root") as usize);
        let next = match lib(|| self.t().next_expiration()) {
            Ok(Some(v)) => cap(v) as i64,
            Ok(None) => -1,
            Err(_) => -2,
        };
        json!({
            "now": cap(flag("now")), "st": st, "expiry": expiry, "task": task,
            "root": root, "parent": links[0], "prev": links[1], "next": links[2], "child": links[3],
            "term": term, "pub": {"next": next}, "heapq": q,
        })
    }

    fn extras(&self, view: &Value) -> Map<String, Value> {
        let mut m = Map::new();
        let term: Vec<Value> = view["term"]
            .as_array()
            .unwrap()
            .iter()
            .enumerate()
            .filter(|(_, b)| b.as_bool() == Some(true))
            .map(|(i, _)| json!(i + 1))
            .collect();
        m.insert("term".into(), Value::Array(term));
        m.insert("pub".into(), view["pub"].clone());
        m.insert("q".into(), view["heapq"].clone());
        m.insert("nst".into(), view["st"].clone());
        m
    }

    fn wake_inlock(&self, _e: &Value) -> bool {
        true
    }

    fn random_op(&self, rng: &mut Rng) -> Value {
        let k = self.futs.k();
        let now = self.t().verif_snapshot().flags.iter().find(|(n, _)| *n == "now").map_or(0, |(_, v)| *v);
        for _attempt in 0..400 {
            let f = 1 + rng.below(k);
            let w = variant_name(self.wk[rng.below(self.wk.len())]);
            match rng.below(14) {
                0 | 1 | 2 => {
                    if !self.futs.is_live(f) {
                        if rng.below(5) == 0 {
                            let d = if rng.below(3) == 0 { INF + rng.below(5) as u64 } else { self.delays[rng.below(self.delays.len())] };
                            return json!({"op": "delay", "f": f, "d": d});
                        }
                        let t = self.deadlines[rng.below(self.deadlines.len())];
                        return json!({"op": "create", "f": f, "t": t});
                    }
                }
                3 | 4 | 5 | 6 => {
                    if let Some(fut) = self.futs.get(f) {
                        if !fut.is_terminated() {
                            return json!({"op": "poll", "f": f, "w": w});
                        } else if rng.below(8) == 0 {
                            return json!({"op": "poll_done", "f": f});
                        }
                    }
                }
                7 | 8 => {
                    if self.futs.is_live(f) {
                        return json!({"op": "drop", "f": f});
                    }
                }
                9 => {
                    if now < self.max_now {
                        let t = now + 1 + rng.below(((self.max_now - now) as usize).min(3)) as u64;
                        return json!({"op": "set_clock", "t": t});
                    }
                }
                10 | 11 => return json!({"op": "check"}),
                _ => return json!({"op": "next_exp"}),
            }
        }
        json!({"op": "idle"})
    }
}
