//! System under test: the ring buffers (ArrayBuf, FixedHeapBuf, GrowingHeapBuf)

use crate::engine::Sut;
use crate::infra::*;
use crate::mpmc::{log_drop, take_drops, Tag};
use futures_intrusive::buffer::RingBuf;
use serde_json::{json, Map, Value};

/// Element types the buffers are exercised with: `Tag` carries its identity; `ZTag` is zero-sized (the
/// harness keeps the identities in a shadow FIFO, its destructor logs id 0).
pub trait Elem: Sized {
    fn make(v: u32) -> Self;
    /// Consumes the element without running its destructor; its identity if it has one.
    fn take_id(self) -> Option<u32>;
}
impl Elem for Tag {
    fn make(v: u32) -> Self {
        Tag(v)
    }
    fn take_id(self) -> Option<u32> {
        let id = self.0;
        std::mem::forget(self);
        Some(id)
    }
}
pub struct ZTag;
impl Drop for ZTag {
    fn drop(&mut self) {
        log_drop(0);
    }
}
impl Elem for ZTag {
    fn make(_v: u32) -> Self {
        ZTag
    }
    fn take_id(self) -> Option<u32> {
        std::mem::forget(self);
        None
    }
}

pub struct RingSut<B: RingBuf>
where
    B::Item: Elem,
{
    buf: Option<B>,
    indices: fn(&B) -> Option<(usize, usize, usize)>,
    growing: bool,
    cap: usize,
    maxv: u32,
    contents: Vec<u32>,
}

impl<B: RingBuf> RingSut<B>
where
    B::Item: Elem,
{
    pub fn new(consts: &Value, indices: fn(&B) -> Option<(usize, usize, usize)>, growing: bool) -> Self {
        let cap = consts["Cap"].as_u64().unwrap_or(2) as usize;
        take_drops();
        RingSut {
            buf: Some(B::with_capacity(cap)),
            indices,
            growing,
            cap,
            maxv: consts["MaxV"].as_u64().unwrap_or(4) as u32,
            contents: Vec::new(),
        }
    }
}

impl<B: RingBuf> Drop for RingSut<B>
where
    B::Item: Elem,
{
    fn drop(&mut self) {
        self.buf.take();
        take_drops();
    }
}

impl<B: RingBuf> Sut for RingSut<B>
where
    B::Item: Elem,
{
    fn apply(&mut self, e: &Value) -> Option<Value> {
        let op = e["op"].as_str()?;
        take_drops();
        let mut out = match op {
            "push" => {
                let v = e["v"].as_u64()? as u32;
                let b = self.buf.as_mut()?;
                if !b.can_push() {
                    return None;
                }
                match lib(|| b.push(<B::Item as Elem>::make(v))) {
                    Ok(()) => {
                        self.contents.push(v);
                        json!({"op": op, "v": v})
                    }
                    Err(_) => json!({"op": op, "v": v, "res": "panic"}),
                }
            }
            "pop" => {
                let b = self.buf.as_mut()?;
                if b.is_empty() {
                    return None;
                }
                match lib(|| b.pop()) {
                    Ok(t) => {
                        // elements without identity leave in the order the shadow FIFO says
                        let id = t.take_id().or(self.contents.first().copied()).unwrap_or(0);
                        self.contents.retain(|x| *x != id);
                        json!({"op": op, "res": "ok", "v": id})
                    }
                    Err(_) => json!({"op": op, "res": "panic"}),
                }
            }
            "query" => {
                let b = self.buf.as_ref()?;
                match lib(|| (b.len(), b.is_empty(), b.can_push(), b.capacity())) {
                    // (TLC integers are 32 bit: absurd capacities are reported as 2e9)
                    Ok((l, e, c, cap)) => json!({"op": op, "len": l.min(2_000_000_000), "empty": e, "canpush": c, "cap": cap.min(2_000_000_000)}),
                    Err(_) => json!({"op": op, "res": "panic"}),
                }
            }
            "drop_buffer" => {
                let b = self.buf.take()?;
                match lib(move || drop(b)) {
                    Ok(()) => json!({"op": op}),
                    Err(_) => json!({"op": op, "res": "panic"}),
                }
            }
            _ => return None,
        };
        // destructors of identity-less elements log 0: they stand for the oldest shadow entries
        let mut dr = take_drops();
        for d in dr.iter_mut() {
            if *d == 0 && !self.contents.is_empty() {
                *d = self.contents.remove(0);
            }
        }
        out["dropped"] = json!(dr);
        Some(out)
    }

    fn view(&self) -> Value {
        match &self.buf {
            None => json!({"dead": true, "size": 0}),
            Some(b) => {
                let mut v = json!({"dead": false, "size": b.len()});
                if let Some((size, recv, send)) = (self.indices)(b) {
                    v["size"] = json!(size);
                    v["recv"] = json!(recv);
                    v["send"] = json!(send);
                }
                v
            }
        }
    }

    fn extras(&self, view: &Value) -> Map<String, Value> {
        // ArrayBuf: the raw indices, for the relation RingIdx.tla proves for every capacity
        let mut m = Map::new();
        if view.get("send").is_some() && view["dead"] == false {
            m.insert("idx".into(), json!({"size": view["size"], "recv": view["recv"], "send": view["send"]}));
        }
        m
    }

    fn wake_inlock(&self, _e: &Value) -> bool {
        true
    }

    fn may_alloc(&self, e: &Value) -> bool {
        e["op"] == "drop_buffer" || (self.growing && e["op"] == "push")
    }

    fn cleanup_ops(&self) -> Vec<Value> {
        if self.buf.is_some() {
            vec![json!({"op": "drop_buffer"})]
        } else {
            Vec::new()
        }
    }

    fn random_op(&self, rng: &mut Rng) -> Value {
        let b = match &self.buf {
            Some(b) => b,
            None => return json!({"op": "idle"}),
        };
        match rng.below(10) {
            0..=3 => {
                if b.can_push() {
                    if let Some(v) = (1..=self.maxv).find(|v| !self.contents.contains(v)) {
                        return json!({"op": "push", "v": v});
                    }
                }
                if !b.is_empty() {
                    return json!({"op": "pop"});
                }
                json!({"op": "query"})
            }
            4..=6 => {
                if !b.is_empty() {
                    json!({"op": "pop"})
                } else {
                    json!({"op": "query"})
                }
            }
            7 | 8 => json!({"op": "query"}),
            _ => {
                if rng.below(20) == 0 || self.cap == 0 {
                    json!({"op": "drop_buffer"})
                } else {
                    json!({"op": "query"})
                }
            }
        }
    }
}
