//! fih: conformance harness binding the TLA+ specifications to the real code.
//!
//!   fih replay --prim P --flavour F --tours FILE --outdir DIR [--record N]
//!   fih exec   --prim P --flavour F --ops FILE --out FILE
//!   fih random --prim P --flavour F --consts JSON --seed S --runs N --len L --out FILE

mod containers;
mod engine;
mod event;
mod mpmc;
mod infra;
mod mutex;
mod oneshot;
mod ring;
mod semaphore;
mod state;
mod timer;

use engine::{Runner, Sut};
use futures_intrusive::sync::{GenericSemaphore, GenericSharedSemaphore};
use infra::*;
use serde_json::{json, Value};
use std::collections::HashMap;
use std::io::{BufRead, BufReader, Write};

#[global_allocator]
static ALLOC: Counting = Counting;

trait LockOf {
    type L;
}
impl<M: lock_api::RawMutex, T> LockOf for futures_intrusive::sync::GenericMutex<M, T> {
    type L = M;
}
/// The crate-private `NoopLock` used by the `Local*` flavours.
pub type Noop = <futures_intrusive::sync::LocalMutex<()> as LockOf>::L;
pub type Pl = parking_lot::RawMutex;

fn make_sut(prim: &str, flavour: &str, consts: &Value) -> Option<Box<dyn Sut>> {
    Some(match (prim, flavour) {
        ("mutex", "local") => Box::new(mutex::MutexSut::<Noop>::new(consts)),
        ("mutex", "pl") => Box::new(mutex::MutexSut::<Pl>::new(consts)),
        ("mutex", "vlock") => Box::new(mutex::MutexSut::<VLock>::new(consts)),
        ("semaphore", "local") => Box::new(semaphore::SemSut::<GenericSemaphore<Noop>>::new(consts)),
        ("semaphore", "pl") => Box::new(semaphore::SemSut::<GenericSemaphore<Pl>>::new(consts)),
        ("semaphore", "vlock") => Box::new(semaphore::SemSut::<GenericSemaphore<VLock>>::new(consts)),
        ("semaphore", "shared") => Box::new(semaphore::SemSut::<GenericSharedSemaphore<Pl>>::new(consts)),
        ("semaphore", "shared-vlock") => Box::new(semaphore::SemSut::<GenericSharedSemaphore<VLock>>::new(consts)),
        ("event", "local") => Box::new(event::EventSut::<Noop>::new(consts)),
        ("event", "pl") => Box::new(event::EventSut::<Pl>::new(consts)),
        ("event", "vlock") => Box::new(event::EventSut::<VLock>::new(consts)),
        ("timer", "local") => Box::new(timer::TimerSut::<timer::ViaLocal<Noop>>::new(consts)),
        ("timer", "pl") => Box::new(timer::TimerSut::<timer::ViaSync<Pl>>::new(consts)),
        ("timer", "pl-local") => Box::new(timer::TimerSut::<timer::ViaLocal<Pl>>::new(consts)),
        ("timer", "vlock") => Box::new(timer::TimerSut::<timer::ViaSync<VLock>>::new(consts)),
        ("mpmc", fl) => return make_mpmc(fl, consts),
        ("ring", fl) => return make_ring(fl, consts),
        ("list", _) => Box::new(containers::ListSut::new(consts)),
        ("heap", _) => Box::new(containers::HeapSut::new(consts)),
        ("state", "local") => Box::new(state::StateSut::<state::BorrowedState<Noop>>::new(consts)),
        ("state", "pl") => Box::new(state::StateSut::<state::BorrowedState<Pl>>::new(consts)),
        ("state", "vlock") => Box::new(state::StateSut::<state::BorrowedState<VLock>>::new(consts)),
        ("state", "shared") => Box::new(state::StateSut::<state::SharedState<Pl>>::new(consts)),
        ("state", "shared-vlock") => Box::new(state::StateSut::<state::SharedState<VLock>>::new(consts)),
        ("oneshot", "local") => Box::new(oneshot::OneSut::<oneshot::BorrowedOne<Noop>>::new(consts)),
        ("oneshot", "pl") => Box::new(oneshot::OneSut::<oneshot::BorrowedOne<Pl>>::new(consts)),
        ("oneshot", "vlock") => Box::new(oneshot::OneSut::<oneshot::BorrowedOne<VLock>>::new(consts)),
        ("oneshot", "shared") => Box::new(oneshot::OneSut::<oneshot::SharedOne<Pl>>::new(consts)),
        ("oneshot", "shared-vlock") => Box::new(oneshot::OneSut::<oneshot::SharedOne<VLock>>::new(consts)),
        ("oneshot", "bc-local") => Box::new(oneshot::OneSut::<oneshot::BorrowedBc<Noop>>::new(consts)),
        ("oneshot", "bc-pl") => Box::new(oneshot::OneSut::<oneshot::BorrowedBc<Pl>>::new(consts)),
        ("oneshot", "bc-vlock") => Box::new(oneshot::OneSut::<oneshot::BorrowedBc<VLock>>::new(consts)),
        ("oneshot", "bc-shared") => Box::new(oneshot::OneSut::<oneshot::SharedBc<Pl>>::new(consts)),
        ("oneshot", "bc-shared-vlock") => Box::new(oneshot::OneSut::<oneshot::SharedBc<VLock>>::new(consts)),
        _ => return None,
    })
}

use futures_intrusive::buffer::{ArrayBuf, FixedHeapBuf, GrowingHeapBuf};
use mpmc::{Borrowed, ChanSut, SharedCh, Tag};

/// A user-provided `RealArray` (the crate documents this for lengths it has no impl for): 96 is above
/// 64 and not a power of two.
pub struct TagArr96([Tag; 96]);
unsafe impl futures_intrusive::buffer::RealArray<Tag> for TagArr96 {
    const LEN: usize = 96;
}
impl AsMut<[Tag]> for TagArr96 {
    fn as_mut(&mut self) -> &mut [Tag] {
        &mut self.0
    }
}
impl AsRef<[Tag]> for TagArr96 {
    fn as_ref(&self) -> &[Tag] {
        &self.0
    }
}

fn make_ring(flavour: &str, consts: &Value) -> Option<Box<dyn Sut>> {
    let cap = consts["Cap"].as_u64().unwrap_or(1);
    macro_rules! arr {
        ($n:expr) => {
            Box::new(ring::RingSut::<ArrayBuf<Tag, [Tag; $n]>>::new(consts, |b| Some(b.verif_indices()), false))
                as Box<dyn Sut>
        };
    }
    Some(match flavour {
        "array" => match cap {
            0 => arr!(0),
            1 => arr!(1),
            2 => arr!(2),
            3 => arr!(3),
            4 => arr!(4),
            5 => arr!(5),
            16 => arr!(16),
            40 => arr!(40),
            96 => Box::new(ring::RingSut::<ArrayBuf<Tag, TagArr96>>::new(consts, |b| Some(b.verif_indices()), false)),
            _ => return None,
        },
        "fixed" => Box::new(ring::RingSut::<FixedHeapBuf<Tag>>::new(consts, |_| None, false)),
        "growing" => Box::new(ring::RingSut::<GrowingHeapBuf<Tag>>::new(consts, |_| None, true)),
        // zero-sized elements
        "fixed-zst" => Box::new(ring::RingSut::<FixedHeapBuf<ring::ZTag>>::new(consts, |_| None, false)),
        "growing-zst" => Box::new(ring::RingSut::<GrowingHeapBuf<ring::ZTag>>::new(consts, |_| None, true)),
        _ => return None,
    })
}

fn make_mpmc(flavour: &str, consts: &Value) -> Option<Box<dyn Sut>> {
    let cap = consts["Cap"].as_u64().unwrap_or(1);
    macro_rules! arr {
        ($kind:ident, $m:ty) => {
            match cap {
                0 => Box::new(ChanSut::<$kind<$m, ArrayBuf<Tag, [Tag; 0]>>>::new(consts, false)) as Box<dyn Sut>,
                1 => Box::new(ChanSut::<$kind<$m, ArrayBuf<Tag, [Tag; 1]>>>::new(consts, false)),
                2 => Box::new(ChanSut::<$kind<$m, ArrayBuf<Tag, [Tag; 2]>>>::new(consts, false)),
                3 => Box::new(ChanSut::<$kind<$m, ArrayBuf<Tag, [Tag; 3]>>>::new(consts, false)),
                40 => Box::new(ChanSut::<$kind<$m, ArrayBuf<Tag, [Tag; 40]>>>::new(consts, false)),
                96 => Box::new(ChanSut::<$kind<$m, ArrayBuf<Tag, TagArr96>>>::new(consts, false)),
                _ => return None,
            }
        };
    }
    Some(match flavour {
        "local-array" => arr!(Borrowed, Noop),
        "pl-array" => arr!(Borrowed, Pl),
        "vlock-array" => arr!(Borrowed, VLock),
        "pl-fixed" => Box::new(ChanSut::<Borrowed<Pl, FixedHeapBuf<Tag>>>::new(consts, false)),
        "pl-growing" => Box::new(ChanSut::<Borrowed<Pl, GrowingHeapBuf<Tag>>>::new(consts, true)),
        "shared-growing" => Box::new(ChanSut::<SharedCh<Pl, GrowingHeapBuf<Tag>>>::new(consts, true)),
        "shared-fixed" => Box::new(ChanSut::<SharedCh<Pl, FixedHeapBuf<Tag>>>::new(consts, false)),
        "shared-vlock-array" => arr!(SharedCh, VLock),
        _ => return None,
    })
}

fn arg<'a>(args: &'a [String], name: &str) -> Option<&'a str> {
    args.iter().position(|a| a == name).and_then(|i| args.get(i + 1)).map(|s| s.as_str())
}

fn write_trace(path: &str, header: &Value, events: &[Value]) {
    let mut f = std::io::BufWriter::new(std::fs::File::create(path).expect("create trace"));
    writeln!(f, "{}", header).unwrap();
    for e in events {
        writeln!(f, "{}", e).unwrap();
    }
}

fn cmd_replay(args: &[String]) -> i32 {
    let prim = arg(args, "--prim").expect("--prim");
    let flavour = arg(args, "--flavour").expect("--flavour");
    let tours = arg(args, "--tours").expect("--tours");
    let outdir = arg(args, "--outdir").expect("--outdir");
    let record: usize = arg(args, "--record").and_then(|s| s.parse().ok()).unwrap_or(0);
    std::fs::create_dir_all(outdir).ok();
    let rd = BufReader::new(std::fs::File::open(tours).expect("open tours"));
    let mut consts = Value::Null;
    let mut states: HashMap<u64, Value> = HashMap::new();
    let mut paths = 0usize;
    let mut steps = 0usize;
    let mut skipped = 0usize;
    let mut drifts: Vec<Value> = Vec::new();
    let mut samples: Vec<Value> = Vec::new();
    let mut edges = 0u64;
    for line in rd.lines() {
        let line = line.unwrap();
        let v: Value = serde_json::from_str(&line).expect("tour json");
        match v["kind"].as_str() {
            Some("header") => {
                consts = v["consts"].clone();
                edges = v["edges"].as_u64().unwrap_or(0);
            }
            Some("state") => {
                states.insert(v["id"].as_u64().unwrap(), v["view"].clone());
            }
            Some("path") => {
                let id = v["id"].as_u64().unwrap();
                // progress marker: lets the driver attribute a crash of the code under test to a path
                let _ = std::fs::write(format!("{}/progress.{}.{}", outdir, prim, flavour), id.to_string());
                let mut sut = match make_sut(prim, flavour, &consts) {
                    Some(s) => s,
                    None => {
                        eprintln!("unknown prim/flavour {}/{}", prim, flavour);
                        return 2;
                    }
                };
                let mut r = Runner::new(sut.as_mut(), flavour == "vlock");
                for st in v["steps"].as_array().unwrap() {
                    let evt = &st[0];
                    let dst = states.get(&st[1].as_u64().unwrap());
                    r.step(evt, dst, true);
                }
                let res = r.finish();
                let _ = std::panic::catch_unwind(std::panic::AssertUnwindSafe(move || drop(sut)));
                paths += 1;
                steps += res.steps;
                skipped += res.skipped;
                let header = json!({"op": "run_start", "prim": prim, "flavour": flavour, "consts": consts,
                                    "path": id, "source": tours});
                if let Some((at, why)) = &res.drift {
                    let file = format!("{}/{}.{}.path{}.drift.ndjson", outdir, prim, flavour, id);
                    write_trace(&file, &header, &res.recorded);
                    drifts.push(json!({"path": id, "step": at, "why": why, "trace": file}));
                } else if samples.len() < record {
                    let file = format!("{}/{}.{}.path{}.ok.ndjson", outdir, prim, flavour, id);
                    write_trace(&file, &header, &res.recorded);
                    samples.push(json!({"path": id, "trace": file}));
                }
            }
            _ => {}
        }
    }
    println!(
        "{}",
        json!({"prim": prim, "flavour": flavour, "tours": tours, "edges": edges, "paths": paths, "steps": steps,
               "skipped": skipped, "drift": drifts, "samples": samples})
    );
    0
}

fn cmd_exec(args: &[String]) -> i32 {
    let ops = arg(args, "--ops").expect("--ops");
    let out = arg(args, "--out").expect("--out");
    let rd = BufReader::new(std::fs::File::open(ops).expect("open ops"));
    let mut lines = rd.lines();
    let header: Value = serde_json::from_str(&lines.next().expect("header").unwrap()).expect("header json");
    let prim = arg(args, "--prim").map(|s| s.to_string()).or(header["prim"].as_str().map(|s| s.to_string())).expect("prim");
    let flavour =
        arg(args, "--flavour").map(|s| s.to_string()).or(header["flavour"].as_str().map(|s| s.to_string())).expect("flavour");
    let consts = header["consts"].clone();
    let mut sut = match make_sut(&prim, &flavour, &consts) {
        Some(s) => s,
        None => return 2,
    };
    let mut r = Runner::new(sut.as_mut(), flavour == "vlock");
    for line in lines {
        let line = line.unwrap();
        if line.trim().is_empty() {
            continue;
        }
        let e: Value = serde_json::from_str(&line).expect("op json");
        if e["op"] == "run_start" {
            continue;
        }
        r.step(&e, None, false);
    }
    // orderly teardown, recorded like everything else
    for e in r.sut.cleanup_ops() {
        r.step(&e, None, false);
    }
    let res = r.finish();
    let _ = std::panic::catch_unwind(std::panic::AssertUnwindSafe(move || drop(sut)));
    let mut h = header.clone();
    h["prim"] = json!(prim);
    h["flavour"] = json!(flavour);
    h["op"] = json!("run_start");
    write_trace(out, &h, &res.recorded);
    println!("{}", json!({"steps": res.steps, "skipped": res.skipped, "events": res.recorded.len()}));
    0
}

fn cmd_random(args: &[String]) -> i32 {
    let prim = arg(args, "--prim").expect("--prim");
    let flavour = arg(args, "--flavour").expect("--flavour");
    let consts: Value = serde_json::from_str(arg(args, "--consts").expect("--consts")).expect("consts json");
    let seed: u64 = arg(args, "--seed").and_then(|s| s.parse().ok()).unwrap_or(1);
    let runs: usize = arg(args, "--runs").and_then(|s| s.parse().ok()).unwrap_or(10);
    let len: usize = arg(args, "--len").and_then(|s| s.parse().ok()).unwrap_or(100);
    let out = arg(args, "--out").expect("--out");
    let mut f = std::io::BufWriter::new(std::fs::File::create(out).expect("create"));
    let mut rng = Rng(seed.wrapping_mul(0x9E3779B97F4A7C15) | 1);
    let mut events = 0usize;
    for run in 0..runs {
        let mut sut = match make_sut(prim, flavour, &consts) {
            Some(s) => s,
            None => return 2,
        };
        let header = json!({"op": "run_start", "prim": prim, "flavour": flavour, "consts": consts, "seed": seed, "run": run});
        writeln!(f, "{}", header).unwrap();
        let mut r = Runner::new(sut.as_mut(), flavour == "vlock");
        for _ in 0..len {
            let e = r.sut.random_op(&mut rng);
            if e["op"] == "idle" {
                break;
            }
            r.step(&e, None, false);
        }
        for e in r.sut.cleanup_ops() {
            r.step(&e, None, false);
        }
        let res = r.finish();
        let _ = std::panic::catch_unwind(std::panic::AssertUnwindSafe(move || drop(sut)));
        events += res.recorded.len();
        for e in &res.recorded {
            writeln!(f, "{}", e).unwrap();
        }
    }
    println!("{}", json!({"runs": runs, "events": events}));
    0
}

fn main() {
    install_quiet_panic_hook();
    let args: Vec<String> = std::env::args().collect();
    let code = match args.get(1).map(|s| s.as_str()) {
        Some("replay") => cmd_replay(&args),
        Some("exec") => cmd_exec(&args),
        Some("random") => cmd_random(&args),
        _ => {
            eprintln!("usage: fih replay|exec|random ...");
            2
        }
    };
    std::process::exit(code);
}
