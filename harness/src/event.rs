//! System under test: GenericManualResetEvent

use crate::engine::Sut;
use crate::infra::*;
use futures_core::future::FusedFuture;
use futures_intrusive::sync::{GenericManualResetEvent, GenericWaitForEventFuture};
use lock_api::RawMutex;
use serde_json::{json, Map, Value};
use std::future::Future;
use std::task::{Context, Poll};

type Fut<M> = GenericWaitForEventFuture<'static, M>;

pub struct EventSut<M: RawMutex + 'static> {
    raw: *mut GenericManualResetEvent<M>,
    futs: Slots<Fut<M>>,
    wk: Vec<u8>,
}

const ST: [&str; 3] = ["new", "waiting", "done"];

impl<M: RawMutex + 'static> EventSut<M> {
    pub fn new(consts: &Value) -> Self {
        let k = consts["K"].as_u64().unwrap_or(3) as usize;
        let init = consts["InitSet"].as_bool().unwrap_or(false);
        let wk = consts["Wk"]
            .as_array()
            .map(|a| a.iter().map(|x| (x.as_u64().unwrap_or(1) - 1) as u8).collect())
            .unwrap_or(vec![0, 1]);
        let raw = Box::into_raw(Box::new(GenericManualResetEvent::<M>::new(init)));
        EventSut { raw, futs: Slots::new(k), wk }
    }
    fn ev(&self) -> &'static GenericManualResetEvent<M> {
        unsafe { &*self.raw }
    }
}

impl<M: RawMutex + 'static> Drop for EventSut<M> {
    fn drop(&mut self) {
        self.futs.drop_live();
        unsafe { drop(Box::from_raw(self.raw)) };
    }
}

impl<M: RawMutex + 'static> Sut for EventSut<M> {
    fn apply(&mut self, e: &Value) -> Option<Value> {
        let op = e["op"].as_str()?;
        let ev = self.ev();
        match op {
            "create" => {
                let f = slot_of(e, "f");
                if f == 0 || f > self.futs.k() || self.futs.is_live(f) {
                    return None;
                }
                match lib(|| ev.wait()) {
                    Ok(fut) => {
                        self.futs.put(f, fut);
                        Some(json!({"op": "create", "f": f}))
                    }
                    Err(_) => Some(json!({"op": "create", "f": f, "res": "panic"})),
                }
            }
            "poll" | "poll_done" => {
                let f = slot_of(e, "f");
                let term = self.futs.get(f)?.is_terminated();
                if (op == "poll") == term {
                    return None;
                }
                let v = variant_of(&e["w"]);
                let waker = waker(0, f, v);
                let mut cx = Context::from_waker(&waker);
                let fut = self.futs.get_pin(f)?;
                let res = match lib(move || fut.poll(&mut cx)) {
                    Ok(Poll::Ready(())) => "ready",
                    Ok(Poll::Pending) => "pending",
                    Err(_) => "panic",
                };
                if op == "poll" {
                    Some(json!({"op": op, "f": f, "w": variant_name(v), "res": res}))
                } else {
                    Some(json!({"op": op, "f": f, "res": res}))
                }
            }
            "drop" => {
                let f = slot_of(e, "f");
                if !self.futs.is_live(f) {
                    return None;
                }
                match self.futs.drop_slot(f) {
                    Ok(()) => Some(json!({"op": "drop", "f": f})),
                    Err(_) => Some(json!({"op": "drop", "f": f, "res": "panic"})),
                }
            }
            "set" => match lib(|| ev.set()) {
                Ok(()) => Some(json!({"op": "set"})),
                Err(_) => Some(json!({"op": "set", "res": "panic"})),
            },
            "reset" => match lib(|| ev.reset()) {
                Ok(()) => Some(json!({"op": "reset"})),
                Err(_) => Some(json!({"op": "reset", "res": "panic"})),
            },
            "is_set" => {
                let res = match lib(|| ev.is_set()) {
                    Ok(true) => "true",
                    Ok(false) => "false",
                    Err(_) => "panic",
                };
                Some(json!({"op": "is_set", "res": res}))
            }
            _ => None,
        }
    }

    fn view(&self) -> Value {
        let k = self.futs.k();
        let snap = self.ev().verif_snapshot();
        let mut table = Vec::new();
        let mut st = vec![json!("none"); k];
        let mut task = vec![json!("-"); k];
        let mut term = vec![json!(false); k];
        for s in self.futs.live_slots() {
            let fut = self.futs.get(s).unwrap();
            let n = fut.verif_node();
            table.push((n.addr, s));
            st[s - 1] = json!(ST.get(n.state as usize).copied().unwrap_or("?"));
            task[s - 1] = json!(task_name(n.waker, 0, s));
            term[s - 1] = json!(fut.is_terminated());
        }
        let flag = |name: &str| snap.flags.iter().find(|(n, _)| *n == name).map_or(0, |(_, v)| *v);
        let qa = |name: &str| -> Vec<usize> {
            snap.queues
                .iter()
                .find(|(n, _)| *n == name)
                .map_or(vec![], |(_, v)| v.iter().map(|x| x.addr).collect())
        };
        let q = checked_queue(&qa("waiters"), &qa("waiters_rev"), &table);
        let is_set = flag("is_set") != 0;
        json!({"isSet": is_set, "st": st, "task": task, "q": q, "term": term, "pub": {"is_set": is_set}})
    }

    fn extras(&self, view: &Value) -> Map<String, Value> {
        let mut m = Map::new();
        let term: Vec<Value> = view["term"]
            .as_array()
            .unwrap()
            .iter()
            .enumerate()
            .filter(|(_, b)| b.as_bool() == Some(true))
            .map(|(i, _)| json!(i + 1))
            .collect();
        m.insert("term".into(), Value::Array(term));
        let s = lib(|| self.ev().is_set()).unwrap_or(false);
        m.insert("pub".into(), json!({"is_set": s}));
        m.insert("q".into(), view["q"].clone());
        m.insert("nst".into(), view["st"].clone());
        m
    }

    fn wake_inlock(&self, _e: &Value) -> bool {
        true
    }

    fn random_op(&self, rng: &mut Rng) -> Value {
        let k = self.futs.k();
        for _attempt in 0..400 {
            let f = 1 + rng.below(k);
            let w = variant_name(self.wk[rng.below(self.wk.len())]);
            match rng.below(12) {
                0 | 1 | 2 => {
                    if !self.futs.is_live(f) {
                        return json!({"op": "create", "f": f});
                    }
                }
                3 | 4 | 5 | 6 => {
                    if let Some(fut) = self.futs.get(f) {
                        if !fut.is_terminated() {
                            return json!({"op": "poll", "f": f, "w": w});
                        } else if rng.below(8) == 0 {
                            return json!({"op": "poll_done", "f": f});
                        }
                    }
                }
                7 => {
                    if self.futs.is_live(f) {
                        return json!({"op": "drop", "f": f});
                    }
                }
                8 => return json!({"op": "set"}),
                9 | 10 => return json!({"op": "reset"}),
                _ => return json!({"op": "is_set"}),
            }
        }
        json!({"op": "idle"})
    }
}
