//! Shared harness infrastructure: counting allocator, logging wakers,
//! harness lock, future slots with quarantined memory, panic capture.

use serde_json::{json, Value};
use std::alloc::{GlobalAlloc, Layout, System};
use std::cell::{Cell, RefCell};
use std::pin::Pin;
use std::sync::atomic::{AtomicBool, Ordering};
use std::task::{RawWaker, RawWakerVTable, Waker};

// ---------------------------------------------------------------- allocator

pub struct Counting;

thread_local! {
    static ARMED: Cell<bool> = const { Cell::new(false) };
    static COUNT: Cell<u64> = const { Cell::new(0) };
    static LOCK_DEPTH: Cell<u32> = const { Cell::new(0) };
    static WAKES: RefCell<Vec<Wake>> = const { RefCell::new(Vec::new()) };
    static PANIC_MSG: RefCell<Option<String>> = const { RefCell::new(None) };
}

#[inline]
fn bump() {
    // try_with: TLS may already be destroyed during thread teardown
    let _ = ARMED.try_with(|a| {
        if a.get() {
            let _ = COUNT.try_with(|c| c.set(c.get() + 1));
        }
    });
}

unsafe impl GlobalAlloc for Counting {
    unsafe fn alloc(&self, l: Layout) -> *mut u8 {
        bump();
        System.alloc(l)
    }
    unsafe fn dealloc(&self, p: *mut u8, l: Layout) {
        bump();
        System.dealloc(p, l)
    }
    unsafe fn realloc(&self, p: *mut u8, l: Layout, n: usize) -> *mut u8 {
        bump();
        System.realloc(p, l, n)
    }
    unsafe fn alloc_zeroed(&self, l: Layout) -> *mut u8 {
        bump();
        System.alloc_zeroed(l)
    }
}

/// Number of allocator calls made inside `lib` regions since the last call.
pub fn take_allocs() -> u64 {
    COUNT.with(|c| c.replace(0))
}

pub fn disarmed<R>(f: impl FnOnce() -> R) -> R {
    let was = ARMED.with(|a| a.replace(false));
    let r = f();
    ARMED.with(|a| a.set(was));
    r
}

/// Runs a call into the library under test: allocation counting armed,
/// panics captured as data.
pub fn lib<R>(f: impl FnOnce() -> R) -> Result<R, String> {
    let was = ARMED.with(|a| a.replace(true));
    let r = std::panic::catch_unwind(std::panic::AssertUnwindSafe(f));
    ARMED.with(|a| a.set(was));
    match r {
        Ok(v) => Ok(v),
        Err(p) => {
            // a panic may have left the harness lock marked as held
            LOCK_DEPTH.with(|d| d.set(0));
            let msg = if let Some(s) = p.downcast_ref::<&str>() {
                s.to_string()
            } else if let Some(s) = p.downcast_ref::<String>() {
                s.clone()
            } else {
                "panic".to_string()
            };
            PANIC_MSG.with(|m| *m.borrow_mut() = Some(msg.clone()));
            Err(msg)
        }
    }
}

pub fn take_panic() -> Option<String> {
    PANIC_MSG.with(|m| m.borrow_mut().take())
}

pub fn install_quiet_panic_hook() {
    std::panic::set_hook(Box::new(|_| {}));
}

// ------------------------------------------------------------------- wakers

#[derive(Clone, Copy, Debug, PartialEq, Eq)]
pub struct Wake {
    pub kind: u8, // 0 = plain, b'r' / b's' for channel receivers / senders
    pub slot: u8,
    pub variant: u8, // 0 = "A", 1 = "B"
    pub inlock: bool,
}

impl Wake {
    pub fn to_json(&self) -> Value {
        let v = if self.variant == 0 { "A" } else { "B" };
        if self.kind == 0 {
            json!([self.slot, v])
        } else {
            json!([(self.kind as char).to_string(), self.slot, v])
        }
    }
}

const MAX_SLOTS: usize = 64;
const NCELLS: usize = MAX_SLOTS * 3 * 2;

#[repr(C)]
struct WakerCell {
    kind: u8,
    slot: u8,
    variant: u8,
}

static CELLS: [WakerCell; NCELLS] = {
    let mut cells = [const { WakerCell { kind: 0, slot: 0, variant: 0 } }; NCELLS];
    let mut i = 0;
    while i < NCELLS {
        let k = i / (MAX_SLOTS * 2);
        cells[i].kind = if k == 0 { 0 } else if k == 1 { b'r' } else { b's' };
        cells[i].slot = ((i / 2) % MAX_SLOTS) as u8;
        cells[i].variant = (i % 2) as u8;
        i += 1;
    }
    cells
};

fn cell_index(kind: u8, slot: usize, variant: u8) -> usize {
    let k = match kind {
        0 => 0,
        b'r' => 1,
        _ => 2,
    };
    k * MAX_SLOTS * 2 + slot * 2 + variant as usize
}

unsafe fn vt_clone(p: *const ()) -> RawWaker {
    RawWaker::new(p, &VTABLE)
}
unsafe fn vt_wake(p: *const ()) {
    let c = &*(p as *const WakerCell);
    let inlock = LOCK_DEPTH.with(|d| d.get() > 0);
    let w = Wake { kind: c.kind, slot: c.slot, variant: c.variant, inlock };
    disarmed(|| WAKES.with(|l| l.borrow_mut().push(w)));
}
unsafe fn vt_drop(_: *const ()) {}
static VTABLE: RawWakerVTable = RawWakerVTable::new(vt_clone, vt_wake, vt_wake, vt_drop);

/// An allocation-free waker identified by (kind, slot, variant).
pub fn waker(kind: u8, slot: usize, variant: u8) -> Waker {
    assert!(slot < MAX_SLOTS);
    let c = &CELLS[cell_index(kind, slot, variant)];
    unsafe { Waker::from_raw(RawWaker::new(c as *const WakerCell as *const (), &VTABLE)) }
}

/// Maps the data pointer of a stored waker back to its identity.
pub fn waker_ident(data: usize) -> Option<(u8, usize, u8)> {
    let base = CELLS.as_ptr() as usize;
    let sz = std::mem::size_of::<WakerCell>();
    if data < base || data >= base + NCELLS * sz || (data - base) % sz != 0 {
        return None;
    }
    let c = &CELLS[(data - base) / sz];
    Some((c.kind, c.slot as usize, c.variant))
}

pub fn take_wakes() -> Vec<Wake> {
    WAKES.with(|l| std::mem::take(&mut *l.borrow_mut()))
}

pub fn variant_of(v: &Value) -> u8 {
    match v.as_str() {
        Some("B") => 1,
        _ => 0,
    }
}

pub fn variant_name(v: u8) -> &'static str {
    if v == 0 {
        "A"
    } else {
        "B"
    }
}

/// Name of the waker variant stored in a node, as the model prints it.
pub fn task_name(waker_data: usize, kind: u8, slot: usize) -> String {
    if waker_data == 0 {
        return "-".to_string();
    }
    match waker_ident(waker_data) {
        Some((k, s, v)) if k == kind && s == slot => variant_name(v).to_string(),
        Some((k, s, v)) => format!("?{}{}{}", k, s, variant_name(v)),
        None => "?".to_string(),
    }
}

// ------------------------------------------------------------- harness lock

/// A `RawMutex` that records whether the calling thread is inside a critical
/// section (used to classify wake-ups as "inside the lock" or "after it").
pub struct VLock {
    held: AtomicBool,
}

unsafe impl lock_api::RawMutex for VLock {
    #[allow(clippy::declare_interior_mutable_const)]
    const INIT: VLock = VLock { held: AtomicBool::new(false) };
    type GuardMarker = lock_api::GuardSend;
    fn lock(&self) {
        while self
            .held
            .compare_exchange(false, true, Ordering::Acquire, Ordering::Relaxed)
            .is_err()
        {
            std::thread::yield_now();
        }
        LOCK_DEPTH.with(|d| d.set(d.get() + 1));
    }
    fn try_lock(&self) -> bool {
        if self
            .held
            .compare_exchange(false, true, Ordering::Acquire, Ordering::Relaxed)
            .is_ok()
        {
            LOCK_DEPTH.with(|d| d.set(d.get() + 1));
            true
        } else {
            false
        }
    }
    unsafe fn unlock(&self) {
        LOCK_DEPTH.with(|d| d.set(d.get().saturating_sub(1)));
        self.held.store(false, Ordering::Release);
    }
}

// -------------------------------------------------------------------- slots

/// Future objects live in numbered slots (1-based in JSON). The memory of a
/// dropped future is quarantined until the end of the path so that a stale
/// pointer left in a wait queue shows up as an address of no live future
/// instead of silently aliasing a new one.
pub struct Slots<F> {
    live: Vec<*mut F>,
    quarantine: Vec<*mut F>,
}

impl<F> Slots<F> {
    pub fn new(k: usize) -> Self {
        Slots { live: vec![std::ptr::null_mut(); k + 1], quarantine: Vec::new() }
    }
    pub fn k(&self) -> usize {
        self.live.len() - 1
    }
    pub fn is_live(&self, slot: usize) -> bool {
        slot < self.live.len() && !self.live[slot].is_null()
    }
    pub fn put(&mut self, slot: usize, f: F) {
        assert!(!self.is_live(slot));
        self.live[slot] = Box::into_raw(Box::new(f));
    }
    pub fn get(&self, slot: usize) -> Option<&F> {
        if self.is_live(slot) {
            Some(unsafe { &*self.live[slot] })
        } else {
            None
        }
    }
    pub fn get_pin(&mut self, slot: usize) -> Option<Pin<&mut F>> {
        if self.is_live(slot) {
            Some(unsafe { Pin::new_unchecked(&mut *self.live[slot]) })
        } else {
            None
        }
    }
    pub fn get_mut_unpinned(&mut self, slot: usize) -> Option<&mut F> {
        if self.is_live(slot) {
            Some(unsafe { &mut *self.live[slot] })
        } else {
            None
        }
    }
    /// Runs the destructor (inside a `lib` region) and quarantines the memory.
    pub fn drop_slot(&mut self, slot: usize) -> Result<(), String> {
        let p = self.live[slot];
        self.live[slot] = std::ptr::null_mut();
        self.quarantine.push(p);
        lib(|| unsafe { std::ptr::drop_in_place(p) })
    }
    pub fn live_slots(&self) -> Vec<usize> {
        (1..self.live.len()).filter(|s| self.is_live(*s)).collect()
    }
    /// Runs the destructors of all live futures; their memory stays quarantined
    /// (the primitive may still be used afterwards without touching freed memory).
    pub fn drop_live(&mut self) {
        for s in self.live_slots() {
            let _ = self.drop_slot(s);
        }
    }
    /// Drops all live futures and frees the quarantined memory.
    pub fn clear(&mut self) {
        for s in self.live_slots() {
            let _ = self.drop_slot(s);
        }
        for p in self.quarantine.drain(..) {
            unsafe {
                std::alloc::dealloc(p as *mut u8, Layout::new::<F>());
            }
        }
    }
}

impl<F> Drop for Slots<F> {
    fn drop(&mut self) {
        self.clear();
    }
}

// --------------------------------------------------------------------- misc

pub fn slot_of(e: &Value, key: &str) -> usize {
    e[key].as_u64().unwrap_or(0) as usize
}

/// Maps node addresses of a queue to slot numbers (0 = no live future there).
pub fn map_queue(addrs: &[usize], table: &[(usize, usize)]) -> Vec<i64> {
    addrs
        .iter()
        .map(|a| table.iter().find(|(x, _)| x == a).map_or(0, |(_, s)| *s as i64))
        .collect()
}

/// Queue in oldest-first order, checked against the newest-first traversal;
/// an inconsistent doubly linked list is reported as a trailing -1.
pub fn checked_queue(fwd: &[usize], rev: &[usize], table: &[(usize, usize)]) -> Vec<i64> {
    let mut q = map_queue(fwd, table);
    let mut r: Vec<usize> = rev.to_vec();
    r.reverse();
    if r != fwd {
        q.push(-1);
    }
    q
}

pub struct Rng(pub u64);
impl Rng {
    pub fn next(&mut self) -> u64 {
        // xorshift64*
        let mut x = self.0;
        x ^= x >> 12;
        x ^= x << 25;
        x ^= x >> 27;
        self.0 = x;
        x.wrapping_mul(0x2545F4914F6CDD1D)
    }
    pub fn below(&mut self, n: usize) -> usize {
        (self.next() % n as u64) as usize
    }
}
