//! System under test: futures_intrusive::sync::GenericMutex

use crate::engine::Sut;
use crate::infra::*;
use futures_core::future::FusedFuture;
use futures_intrusive::sync::{GenericMutex, GenericMutexGuard, GenericMutexLockFuture};
use lock_api::RawMutex;
use serde_json::{json, Map, Value};
use std::future::Future;
use std::task::{Context, Poll};

type Fut<M> = GenericMutexLockFuture<'static, M, u32>;

pub struct MutexSut<M: RawMutex + 'static> {
    raw: *mut GenericMutex<M, u32>,
    futs: Slots<Fut<M>>,
    guards: Vec<GenericMutexGuard<'static, M, u32>>,
    wk: Vec<u8>,
}

const ST: [&str; 4] = ["new", "waiting", "notified", "done"];

impl<M: RawMutex + 'static> MutexSut<M> {
    pub fn new(consts: &Value) -> Self {
        let k = consts["K"].as_u64().unwrap_or(3) as usize;
        let fair = consts["Fair"].as_bool().unwrap_or(false);
        let wk = consts["Wk"]
            .as_array()
            .map(|a| a.iter().map(|x| (x.as_u64().unwrap_or(1) - 1) as u8).collect())
            .unwrap_or(vec![0, 1]);
        let raw = Box::into_raw(Box::new(GenericMutex::<M, u32>::new(0, fair)));
        MutexSut { raw, futs: Slots::new(k), guards: Vec::new(), wk }
    }
    fn m(&self) -> &'static GenericMutex<M, u32> {
        unsafe { &*self.raw }
    }
}

impl<M: RawMutex + 'static> Drop for MutexSut<M> {
    fn drop(&mut self) {
        self.futs.drop_live();
        self.guards.clear();
        unsafe { drop(Box::from_raw(self.raw)) };
    }
}

impl<M: RawMutex + 'static> Sut for MutexSut<M> {
    fn apply(&mut self, e: &Value) -> Option<Value> {
        let op = e["op"].as_str()?;
        let m = self.m();
        match op {
            "create" => {
                let f = slot_of(e, "f");
                if f == 0 || f > self.futs.k() || self.futs.is_live(f) {
                    return None;
                }
                let fut = lib(|| m.lock());
                match fut {
                    Ok(fut) => {
                        self.futs.put(f, fut);
                        Some(json!({"op": "create", "f": f}))
                    }
                    Err(_) => Some(json!({"op": "create", "f": f, "res": "panic"})),
                }
            }
            "poll" | "poll_done" => {
                let f = slot_of(e, "f");
                let term = self.futs.get(f)?.is_terminated();
                if (op == "poll") == term {
                    return None;
                }
                let v = variant_of(&e["w"]);
                let waker = waker(0, f, v);
                let mut cx = Context::from_waker(&waker);
                let fut = self.futs.get_pin(f)?;
                let r = lib(move || fut.poll(&mut cx));
                let res = match r {
                    Ok(Poll::Ready(g)) => {
                        self.guards.push(g);
                        "ready"
                    }
                    Ok(Poll::Pending) => "pending",
                    Err(_) => "panic",
                };
                if op == "poll" {
                    Some(json!({"op": op, "f": f, "w": variant_name(v), "res": res}))
                } else {
                    Some(json!({"op": op, "f": f, "res": res}))
                }
            }
            "drop" => {
                let f = slot_of(e, "f");
                if !self.futs.is_live(f) {
                    return None;
                }
                match self.futs.drop_slot(f) {
                    Ok(()) => Some(json!({"op": "drop", "f": f})),
                    Err(_) => Some(json!({"op": "drop", "f": f, "res": "panic"})),
                }
            }
            "try_lock" => {
                let r = lib(|| m.try_lock());
                let res = match r {
                    Ok(Some(g)) => {
                        self.guards.push(g);
                        "some"
                    }
                    Ok(None) => "none",
                    Err(_) => "panic",
                };
                Some(json!({"op": "try_lock", "res": res}))
            }
            "drop_guard" => {
                if self.guards.is_empty() {
                    return None;
                }
                let g = self.guards.remove(0);
                match lib(move || drop(g)) {
                    Ok(()) => Some(json!({"op": "drop_guard"})),
                    Err(_) => Some(json!({"op": "drop_guard", "res": "panic"})),
                }
            }
            "is_locked" => {
                let r = lib(|| m.is_locked());
                let res = match r {
                    Ok(true) => "true",
                    Ok(false) => "false",
                    Err(_) => "panic",
                };
                Some(json!({"op": "is_locked", "res": res}))
            }
            _ => None,
        }
    }

    fn view(&self) -> Value {
        let k = self.futs.k();
        let snap = self.m().verif_snapshot();
        let mut table = Vec::new();
        let mut st = vec![json!("none"); k];
        let mut task = vec![json!("-"); k];
        let mut term = vec![json!(false); k];
        for s in self.futs.live_slots() {
            let fut = self.futs.get(s).unwrap();
            let n = fut.verif_node();
            table.push((n.addr, s));
            st[s - 1] = json!(ST.get(n.state as usize).copied().unwrap_or("?"));
            task[s - 1] = json!(task_name(n.waker, 0, s));
            term[s - 1] = json!(fut.is_terminated());
        }
        let flag = |name: &str| snap.flags.iter().find(|(n, _)| *n == name).map_or(0, |(_, v)| *v);
        let qa = |name: &str| -> Vec<usize> {
            snap.queues
                .iter()
                .find(|(n, _)| *n == name)
                .map_or(vec![], |(_, v)| v.iter().map(|x| x.addr).collect())
        };
        let q = checked_queue(&qa("waiters"), &qa("waiters_rev"), &table);
        let locked = flag("is_locked") != 0;
        json!({
            "locked": locked,
            "st": st,
            "task": task,
            "q": q,
            "term": term,
            "pub": {"is_locked": locked},
        })
    }

    fn extras(&self, view: &Value) -> Map<String, Value> {
        let mut m = Map::new();
        let term: Vec<Value> = view["term"]
            .as_array()
            .unwrap()
            .iter()
            .enumerate()
            .filter(|(_, b)| b.as_bool() == Some(true))
            .map(|(i, _)| json!(i + 1))
            .collect();
        m.insert("term".into(), Value::Array(term));
        // is_locked() through the public API, not through the hook
        let il = lib(|| self.m().is_locked()).unwrap_or(false);
        m.insert("pub".into(), json!({"is_locked": il}));
        m.insert("q".into(), view["q"].clone());
        m.insert("nst".into(), view["st"].clone());
        m
    }

    fn wake_inlock(&self, _e: &Value) -> bool {
        false
    }

    fn random_op(&self, rng: &mut Rng) -> Value {
        let k = self.futs.k();
        for _attempt in 0..400 {
            let f = 1 + rng.below(k);
            let w = variant_name(self.wk[rng.below(self.wk.len())]);
            match rng.below(10) {
                0 | 1 => {
                    if !self.futs.is_live(f) {
                        return json!({"op": "create", "f": f});
                    }
                }
                2 | 3 | 4 => {
                    if let Some(fut) = self.futs.get(f) {
                        if !fut.is_terminated() {
                            return json!({"op": "poll", "f": f, "w": w});
                        } else if rng.below(8) == 0 {
                            return json!({"op": "poll_done", "f": f});
                        }
                    }
                }
                5 => {
                    if self.futs.is_live(f) {
                        return json!({"op": "drop", "f": f});
                    }
                }
                6 => return json!({"op": "try_lock"}),
                7 | 8 => {
                    if !self.guards.is_empty() {
                        return json!({"op": "drop_guard"});
                    }
                }
                _ => return json!({"op": "is_locked"}),
            }
        }
        json!({"op": "idle"})
    }
}
