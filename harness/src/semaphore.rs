//! System under test: GenericSemaphore (borrowed) and GenericSharedSemaphore

use crate::engine::Sut;
use crate::infra::*;
use futures_core::future::FusedFuture;
use futures_intrusive::sync::{
    GenericSemaphore, GenericSemaphoreAcquireFuture, GenericSemaphoreReleaser, GenericSharedSemaphore,
    GenericSharedSemaphoreAcquireFuture, GenericSharedSemaphoreReleaser,
};
use futures_intrusive::verif::{NodeInfo, Snapshot};
use lock_api::RawMutex;
use serde_json::{json, Map, Value};
use std::future::Future;
use std::task::{Context, Poll};

/// Abstraction over the borrowed and the shared flavour.
pub trait SemLike: 'static {
    type Fut: Future<Output = Self::Rel> + FusedFuture;
    type Rel;
    fn new(fair: bool, permits: usize) -> Self;
    fn acquire(&'static self, n: usize) -> Self::Fut;
    fn try_acquire(&'static self, n: usize) -> Option<Self::Rel>;
    fn release(&self, n: usize);
    fn permits(&self) -> usize;
    fn snapshot(&self) -> Snapshot;
    fn node(f: &Self::Fut) -> NodeInfo;
    fn disarm(r: &mut Self::Rel) -> usize;
}

impl<M: RawMutex + 'static> SemLike for GenericSemaphore<M> {
    type Fut = GenericSemaphoreAcquireFuture<'static, M>;
    type Rel = GenericSemaphoreReleaser<'static, M>;
    fn new(fair: bool, permits: usize) -> Self {
        GenericSemaphore::new(fair, permits)
    }
    fn acquire(&'static self, n: usize) -> Self::Fut {
        GenericSemaphore::acquire(self, n)
    }
    fn try_acquire(&'static self, n: usize) -> Option<Self::Rel> {
        GenericSemaphore::try_acquire(self, n)
    }
    fn release(&self, n: usize) {
        GenericSemaphore::release(self, n)
    }
    fn permits(&self) -> usize {
        GenericSemaphore::permits(self)
    }
    fn snapshot(&self) -> Snapshot {
        self.verif_snapshot()
    }
    fn node(f: &Self::Fut) -> NodeInfo {
        f.verif_node()
    }
    fn disarm(r: &mut Self::Rel) -> usize {
        r.disarm()
    }
}

impl<M: RawMutex + 'static> SemLike for GenericSharedSemaphore<M> {
    type Fut = GenericSharedSemaphoreAcquireFuture<M>;
    type Rel = GenericSharedSemaphoreReleaser<M>;
    fn new(fair: bool, permits: usize) -> Self {
        GenericSharedSemaphore::new(fair, permits)
    }
    fn acquire(&'static self, n: usize) -> Self::Fut {
        GenericSharedSemaphore::acquire(self, n)
    }
    fn try_acquire(&'static self, n: usize) -> Option<Self::Rel> {
        GenericSharedSemaphore::try_acquire(self, n)
    }
    fn release(&self, n: usize) {
        GenericSharedSemaphore::release(self, n)
    }
    fn permits(&self) -> usize {
        GenericSharedSemaphore::permits(self)
    }
    fn snapshot(&self) -> Snapshot {
        self.verif_snapshot()
    }
    fn node(f: &Self::Fut) -> NodeInfo {
        f.verif_node()
    }
    fn disarm(r: &mut Self::Rel) -> usize {
        r.disarm()
    }
}

pub struct SemSut<S: SemLike> {
    raw: *mut S,
    futs: Slots<S::Fut>,
    /// live releasers with the amount they are armed with
    rels: Vec<(usize, S::Rel)>,
    wk: Vec<u8>,
    reqs: Vec<usize>,
    max_p: usize,
    max_rels: usize,
}

const ST: [&str; 4] = ["new", "waiting", "notified", "done"];

impl<S: SemLike> SemSut<S> {
    pub fn new(consts: &Value) -> Self {
        let k = consts["K"].as_u64().unwrap_or(3) as usize;
        let fair = consts["Fair"].as_bool().unwrap_or(false);
        let init0 = consts["Init0"].as_u64().unwrap_or(0) as usize;
        let wk = consts["Wk"]
            .as_array()
            .map(|a| a.iter().map(|x| (x.as_u64().unwrap_or(1) - 1) as u8).collect())
            .unwrap_or(vec![0, 1]);
        let reqs = consts["Reqs"]
            .as_array()
            .map(|a| a.iter().map(|x| x.as_u64().unwrap_or(1) as usize).collect())
            .unwrap_or(vec![0, 1, 2]);
        let max_p = consts["MaxP"].as_u64().unwrap_or(4) as usize;
        let max_rels = consts["MaxRels"].as_u64().unwrap_or(4) as usize;
        let raw = Box::into_raw(Box::new(S::new(fair, init0)));
        SemSut { raw, futs: Slots::new(k), rels: Vec::new(), wk, reqs, max_p, max_rels }
    }
    fn s(&self) -> &'static S {
        unsafe { &*self.raw }
    }
}

impl<S: SemLike> Drop for SemSut<S> {
    fn drop(&mut self) {
        self.futs.drop_live();
        // a broken library may panic in any destructor: one at a time, so that a second panic
        // cannot meet the unwinding of the first
        for (_, r) in self.rels.drain(..) {
            let _ = lib(move || drop(r));
        }
        let raw = self.raw;
        let _ = lib(move || unsafe { drop(Box::from_raw(raw)) });
    }
}

/// Permit counts at and above INF are codes for the upper end of usize: INF + d stands for
/// usize::MAX - d (TLC integers are 32 bit). Values the code reports are coded the same way.
const INF: usize = 2_000_000_000;
fn decode(n: usize) -> usize {
    if n >= INF {
        usize::MAX - (n - INF)
    } else {
        n
    }
}
fn encode(x: u64) -> u64 {
    let x = x as usize;
    if x >= INF {
        (INF + (usize::MAX - x).min(100_000_000)) as u64
    } else {
        x as u64
    }
}

impl<S: SemLike> Sut for SemSut<S> {
    fn apply(&mut self, e: &Value) -> Option<Value> {
        let op = e["op"].as_str()?;
        let s = self.s();
        match op {
            "create" => {
                let f = slot_of(e, "f");
                let n = slot_of(e, "n");
                if f == 0 || f > self.futs.k() || self.futs.is_live(f) {
                    return None;
                }
                match lib(|| s.acquire(decode(n))) {
                    Ok(fut) => {
                        self.futs.put(f, fut);
                        Some(json!({"op": "create", "f": f, "n": n}))
                    }
                    Err(_) => Some(json!({"op": "create", "f": f, "n": n, "res": "panic"})),
                }
            }
            "poll" | "poll_done" => {
                let f = slot_of(e, "f");
                let term = self.futs.get(f)?.is_terminated();
                if (op == "poll") == term {
                    return None;
                }
                let n = encode(S::node(self.futs.get(f)?).extra) as usize;
                let v = variant_of(&e["w"]);
                let waker = waker(0, f, v);
                let mut cx = Context::from_waker(&waker);
                let fut = self.futs.get_pin(f)?;
                let r = lib(move || fut.poll(&mut cx));
                let res = match r {
                    Ok(Poll::Ready(g)) => {
                        self.rels.push((n, g));
                        "ready"
                    }
                    Ok(Poll::Pending) => "pending",
                    Err(_) => "panic",
                };
                if op == "poll" {
                    Some(json!({"op": op, "f": f, "w": variant_name(v), "res": res}))
                } else {
                    Some(json!({"op": op, "f": f, "res": res}))
                }
            }
            "drop" => {
                let f = slot_of(e, "f");
                if !self.futs.is_live(f) {
                    return None;
                }
                match self.futs.drop_slot(f) {
                    Ok(()) => Some(json!({"op": "drop", "f": f})),
                    Err(_) => Some(json!({"op": "drop", "f": f, "res": "panic"})),
                }
            }
            "try_acquire" => {
                let n = slot_of(e, "n");
                let res = match lib(|| s.try_acquire(decode(n))) {
                    Ok(Some(g)) => {
                        self.rels.push((n, g));
                        "some"
                    }
                    Ok(None) => "none",
                    Err(_) => "panic",
                };
                Some(json!({"op": "try_acquire", "n": n, "res": res}))
            }
            "release" => {
                let n = slot_of(e, "n");
                match lib(|| s.release(n)) {
                    Ok(()) => Some(json!({"op": "release", "n": n})),
                    Err(_) => Some(json!({"op": "release", "n": n, "res": "panic"})),
                }
            }
            "drop_releaser" => {
                let a = slot_of(e, "a");
                let i = self.rels.iter().position(|(x, _)| *x == a)?;
                let (_, r) = self.rels.remove(i);
                match lib(move || drop(r)) {
                    Ok(()) => Some(json!({"op": "drop_releaser", "a": a})),
                    Err(_) => Some(json!({"op": "drop_releaser", "a": a, "res": "panic"})),
                }
            }
            "disarm" => {
                let a = slot_of(e, "a");
                let i = self.rels.iter().position(|(x, _)| *x == a)?;
                let r = &mut self.rels[i].1;
                match lib(|| S::disarm(r)) {
                    Ok(v) => {
                        self.rels[i].0 = 0;
                        Some(json!({"op": "disarm", "a": a, "res": "ok", "val": v}))
                    }
                    Err(_) => Some(json!({"op": "disarm", "a": a, "res": "panic"})),
                }
            }
            "permits" => match lib(|| s.permits()) {
                Ok(v) => Some(json!({"op": "permits", "res": "ok", "val": encode(v as u64)})),
                Err(_) => Some(json!({"op": "permits", "res": "panic"})),
            },
            _ => None,
        }
    }

    fn view(&self) -> Value {
        let k = self.futs.k();
        let snap = self.s().snapshot();
        let mut table = Vec::new();
        let mut st = vec![json!("none"); k];
        let mut task = vec![json!("-"); k];
        let mut term = vec![json!(false); k];
        let mut req = vec![json!(0); k];
        for s in self.futs.live_slots() {
            let fut = self.futs.get(s).unwrap();
            let n = S::node(fut);
            table.push((n.addr, s));
            st[s - 1] = json!(ST.get(n.state as usize).copied().unwrap_or("?"));
            task[s - 1] = json!(task_name(n.waker, 0, s));
            term[s - 1] = json!(fut.is_terminated());
            req[s - 1] = json!(encode(n.extra));
        }
        let flag = |name: &str| snap.flags.iter().find(|(n, _)| *n == name).map_or(0, |(_, v)| *v);
        let qa = |name: &str| -> Vec<usize> {
            snap.queues
                .iter()
                .find(|(n, _)| *n == name)
                .map_or(vec![], |(_, v)| v.iter().map(|x| x.addr).collect())
        };
        let q = checked_queue(&qa("waiters"), &qa("waiters_rev"), &table);
        let permits = encode(flag("permits"));
        json!({
            "permits": permits,
            "st": st,
            "req": req,
            "task": task,
            "q": q,
            "term": term,
            "pub": {"permits": permits},
        })
    }

    fn extras(&self, view: &Value) -> Map<String, Value> {
        let mut m = Map::new();
        let term: Vec<Value> = view["term"]
            .as_array()
            .unwrap()
            .iter()
            .enumerate()
            .filter(|(_, b)| b.as_bool() == Some(true))
            .map(|(i, _)| json!(i + 1))
            .collect();
        m.insert("term".into(), Value::Array(term));
        let p = lib(|| self.s().permits()).unwrap_or(usize::MAX);
        m.insert("pub".into(), json!({"permits": p}));
        m.insert("q".into(), view["q"].clone());
        m.insert("nst".into(), view["st"].clone());
        m
    }

    fn wake_inlock(&self, _e: &Value) -> bool {
        true
    }

    fn cleanup_ops(&self) -> Vec<Value> {
        let mut v = Vec::new();
        for f in self.futs.live_slots() {
            v.push(json!({"op": "drop", "f": f}));
        }
        for (a, _) in &self.rels {
            v.push(json!({"op": "drop_releaser", "a": a}));
        }
        v.push(json!({"op": "permits"}));
        v
    }

    fn random_op(&self, rng: &mut Rng) -> Value {
        let k = self.futs.k();
        let held: usize = self.rels.iter().map(|(a, _)| *a).sum();
        let total = self.s().permits() + held;
        for _attempt in 0..400 {
            let f = 1 + rng.below(k);
            let w = variant_name(self.wk[rng.below(self.wk.len())]);
            let n = self.reqs[rng.below(self.reqs.len())];
            match rng.below(12) {
                0 | 1 => {
                    if !self.futs.is_live(f) {
                        return json!({"op": "create", "f": f, "n": n});
                    }
                }
                2 | 3 | 4 => {
                    if let Some(fut) = self.futs.get(f) {
                        if !fut.is_terminated() {
                            if self.rels.len() < self.max_rels {
                                return json!({"op": "poll", "f": f, "w": w});
                            }
                        } else if rng.below(8) == 0 {
                            return json!({"op": "poll_done", "f": f});
                        }
                    }
                }
                5 => {
                    if self.futs.is_live(f) {
                        return json!({"op": "drop", "f": f});
                    }
                }
                6 => {
                    if self.rels.len() < self.max_rels {
                        return json!({"op": "try_acquire", "n": n});
                    }
                }
                7 => {
                    if n > 0 && total + n <= self.max_p {
                        return json!({"op": "release", "n": n});
                    }
                }
                8 | 9 => {
                    if !self.rels.is_empty() {
                        let a = self.rels[rng.below(self.rels.len())].0;
                        return json!({"op": "drop_releaser", "a": a});
                    }
                }
                10 => {
                    if !self.rels.is_empty() {
                        let a = self.rels[rng.below(self.rels.len())].0;
                        if a > 0 {
                            return json!({"op": "disarm", "a": a});
                        }
                    }
                }
                _ => return json!({"op": "permits"}),
            }
        }
        json!({"op": "idle"})
    }
}
