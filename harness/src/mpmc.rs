//! System under test: the MPMC channel (borrowed GenericChannel and shared
//! Sender/Receiver), its futures, streams and handles.

use crate::engine::Sut;
use crate::infra::*;
use futures_core::future::FusedFuture;
use futures_core::stream::{FusedStream, Stream};
use futures_intrusive::buffer::RingBuf;
use futures_intrusive::channel::shared::{
    generic_channel, ChannelReceiveFuture as SharedRecvFut, ChannelSendFuture as SharedSendFut, GenericReceiver,
    GenericSender, SharedStream, MpmcVerifPeek,
};
use futures_intrusive::channel::{
    ChannelReceiveFuture, ChannelSendError, ChannelSendFuture, ChannelStream, CloseStatus, GenericChannel,
    TryReceiveError, TrySendError,
};
use futures_intrusive::verif::{NodeInfo, Snapshot};
use lock_api::RawMutex;
use serde_json::{json, Map, Value};
use std::cell::RefCell;
use std::future::Future;
use std::marker::PhantomData;
use std::task::{Context, Poll};

/// A payload with an identity whose destructor is logged.
pub struct Tag(pub u32);

thread_local! {
    static DROPS: RefCell<Vec<u32>> = const { RefCell::new(Vec::new()) };
}

impl Drop for Tag {
    fn drop(&mut self) {
        let id = self.0;
        disarmed(|| DROPS.with(|d| d.borrow_mut().push(id)));
    }
}

pub fn log_drop(id: u32) {
    disarmed(|| DROPS.with(|d| d.borrow_mut().push(id)));
}

pub fn take_drops() -> Vec<u32> {
    DROPS.with(|d| std::mem::take(&mut *d.borrow_mut()))
}

/// Takes a value out of the library's hands without running its destructor.
fn consume(t: Tag) -> u32 {
    let id = t.0;
    std::mem::forget(t);
    id
}

fn tag_id(t: &Tag) -> u64 {
    t.0 as u64
}

pub trait ChanFlavour: Sized + 'static {
    type SendFut: Future<Output = Result<(), ChannelSendError<Tag>>> + FusedFuture;
    type RecvFut: Future<Output = Option<Tag>> + FusedFuture;
    type Strm: Stream<Item = Tag> + FusedStream;
    const SHARED: bool;
    fn new(cap: usize) -> Self;
    fn send(&self, v: Tag) -> Option<Self::SendFut>;
    fn receive(&self) -> Option<Self::RecvFut>;
    fn try_send(&self, v: Tag) -> Option<Result<(), TrySendError<Tag>>>;
    fn try_receive(&self) -> Option<Result<Tag, TryReceiveError>>;
    fn close(&self) -> Option<CloseStatus>;
    fn stream(&mut self) -> Option<Self::Strm>;
    fn cancel(f: &mut Self::SendFut) -> Option<Tag>;
    fn snapshot(&self) -> Option<Snapshot>;
    fn send_node(f: &Self::SendFut) -> NodeInfo;
    fn recv_node(f: &Self::RecvFut) -> NodeInfo;
    fn stream_node(f: &Self::Strm) -> Option<NodeInfo>;
    fn stream_close(_f: &Self::Strm) -> Option<CloseStatus> {
        None
    }
    fn clone_sender(&mut self) -> bool {
        false
    }
    fn drop_sender(&mut self) -> bool {
        false
    }
    fn clone_receiver(&mut self) -> bool {
        false
    }
    fn drop_receiver(&mut self) -> bool {
        false
    }
    fn handles(&self) -> (usize, usize) {
        (1, 1)
    }
    /// Destroys the channel itself (all futures must be gone).
    fn destroy(&mut self) -> bool;
}

// ---------------------------------------------------------------- borrowed

pub struct Borrowed<M: RawMutex + 'static, A: RingBuf<Item = Tag> + 'static> {
    raw: *mut GenericChannel<M, Tag, A>,
}

impl<M: RawMutex + 'static, A: RingBuf<Item = Tag> + 'static> Borrowed<M, A> {
    fn ch(&self) -> Option<&'static GenericChannel<M, Tag, A>> {
        if self.raw.is_null() {
            None
        } else {
            Some(unsafe { &*self.raw })
        }
    }
}

impl<M: RawMutex + 'static, A: RingBuf<Item = Tag> + 'static> Drop for Borrowed<M, A> {
    fn drop(&mut self) {
        self.destroy();
    }
}

impl<M: RawMutex + 'static, A: RingBuf<Item = Tag> + 'static> ChanFlavour for Borrowed<M, A> {
    type SendFut = ChannelSendFuture<'static, M, Tag>;
    type RecvFut = ChannelReceiveFuture<'static, M, Tag>;
    type Strm = ChannelStream<'static, M, Tag, A>;
    const SHARED: bool = false;
    fn new(cap: usize) -> Self {
        Borrowed { raw: Box::into_raw(Box::new(GenericChannel::with_capacity(cap))) }
    }
    fn send(&self, v: Tag) -> Option<Self::SendFut> {
        Some(self.ch()?.send(v))
    }
    fn receive(&self) -> Option<Self::RecvFut> {
        Some(self.ch()?.receive())
    }
    fn try_send(&self, v: Tag) -> Option<Result<(), TrySendError<Tag>>> {
        Some(self.ch()?.try_send(v))
    }
    fn try_receive(&self) -> Option<Result<Tag, TryReceiveError>> {
        Some(self.ch()?.try_receive())
    }
    fn close(&self) -> Option<CloseStatus> {
        Some(self.ch()?.close())
    }
    fn stream(&mut self) -> Option<Self::Strm> {
        Some(self.ch()?.stream())
    }
    fn cancel(f: &mut Self::SendFut) -> Option<Tag> {
        f.cancel()
    }
    fn snapshot(&self) -> Option<Snapshot> {
        Some(self.ch()?.verif_snapshot(&tag_id))
    }
    fn send_node(f: &Self::SendFut) -> NodeInfo {
        f.verif_node(&tag_id)
    }
    fn recv_node(f: &Self::RecvFut) -> NodeInfo {
        f.verif_node()
    }
    fn stream_node(f: &Self::Strm) -> Option<NodeInfo> {
        f.verif_node()
    }
    fn destroy(&mut self) -> bool {
        if self.raw.is_null() {
            return false;
        }
        let p = self.raw;
        self.raw = std::ptr::null_mut();
        let _ = lib(|| unsafe { drop(Box::from_raw(p)) });
        true
    }
}

// ------------------------------------------------------------------ shared

pub struct SharedCh<M: RawMutex + 'static, A: RingBuf<Item = Tag> + 'static> {
    senders: Vec<GenericSender<M, Tag, A>>,
    receivers: Vec<GenericReceiver<M, Tag, A>>,
    peek: Option<MpmcVerifPeek<M, Tag, A>>,
    _p: PhantomData<(M, A)>,
}

impl<M: RawMutex + 'static, A: RingBuf<Item = Tag> + 'static> ChanFlavour for SharedCh<M, A> {
    type SendFut = SharedSendFut<M, Tag>;
    type RecvFut = SharedRecvFut<M, Tag>;
    type Strm = SharedStream<M, Tag, A>;
    const SHARED: bool = true;
    fn new(cap: usize) -> Self {
        let (s, r) = generic_channel::<M, Tag, A>(cap);
        let peek = s.verif_peek();
        let mut senders = Vec::with_capacity(16);
        let mut receivers = Vec::with_capacity(16);
        senders.push(s);
        receivers.push(r);
        SharedCh { senders, receivers, peek: Some(peek), _p: PhantomData }
    }
    fn send(&self, v: Tag) -> Option<Self::SendFut> {
        Some(self.senders.first()?.send(v))
    }
    fn receive(&self) -> Option<Self::RecvFut> {
        Some(self.receivers.first()?.receive())
    }
    fn try_send(&self, v: Tag) -> Option<Result<(), TrySendError<Tag>>> {
        Some(self.senders.first()?.try_send(v))
    }
    fn try_receive(&self) -> Option<Result<Tag, TryReceiveError>> {
        Some(self.receivers.first()?.try_receive())
    }
    fn close(&self) -> Option<CloseStatus> {
        if let Some(s) = self.senders.first() {
            Some(s.close())
        } else {
            Some(self.receivers.first()?.close())
        }
    }
    fn stream(&mut self) -> Option<Self::Strm> {
        let r = self.receivers.first()?.clone();
        Some(r.into_stream())
    }
    fn cancel(f: &mut Self::SendFut) -> Option<Tag> {
        f.cancel()
    }
    fn snapshot(&self) -> Option<Snapshot> {
        Some(self.peek.as_ref()?.verif_snapshot(&tag_id))
    }
    fn send_node(f: &Self::SendFut) -> NodeInfo {
        f.verif_node(&tag_id)
    }
    fn recv_node(f: &Self::RecvFut) -> NodeInfo {
        f.verif_node()
    }
    fn stream_node(f: &Self::Strm) -> Option<NodeInfo> {
        f.verif_node()
    }
    fn stream_close(f: &Self::Strm) -> Option<CloseStatus> {
        Some(f.close())
    }
    fn clone_sender(&mut self) -> bool {
        match self.senders.first() {
            Some(s) => {
                let c = s.clone();
                self.senders.push(c);
                true
            }
            None => false,
        }
    }
    fn drop_sender(&mut self) -> bool {
        match self.senders.pop() {
            Some(s) => {
                drop(s);
                true
            }
            None => false,
        }
    }
    fn clone_receiver(&mut self) -> bool {
        match self.receivers.first() {
            Some(s) => {
                let c = s.clone();
                self.receivers.push(c);
                true
            }
            None => false,
        }
    }
    fn drop_receiver(&mut self) -> bool {
        match self.receivers.pop() {
            Some(s) => {
                drop(s);
                true
            }
            None => false,
        }
    }
    fn handles(&self) -> (usize, usize) {
        (self.senders.len(), self.receivers.len())
    }
    fn destroy(&mut self) -> bool {
        if self.peek.is_none() || !self.senders.is_empty() || !self.receivers.is_empty() {
            return false;
        }
        let p = self.peek.take();
        let _ = lib(move || drop(p));
        true
    }
}

// --------------------------------------------------------------------- SUT

pub struct ChanSut<F: ChanFlavour> {
    ch: F,
    sends: Slots<F::SendFut>,
    recvs: Slots<F::RecvFut>,
    strm: Slots<F::Strm>,
    ns: usize,
    nr: usize,
    cap: usize,
    wk: Vec<u8>,
    maxv: u32,
    maxh: usize,
    with_stream: bool,
    with_cancel: bool,
    growing: bool,
    dead: bool,
    last_view: RefCell<Value>,
    closed_by_last_op: bool,
    next_val: u32,
    in_use: Vec<u32>,
}

const RST: [&str; 3] = ["unreg", "reg", "notified"];
const SST: [&str; 3] = ["unreg", "reg", "complete"];

impl<F: ChanFlavour> ChanSut<F> {
    pub fn new(consts: &Value, growing: bool) -> Self {
        let g = |k: &str, d: u64| consts[k].as_u64().unwrap_or(d) as usize;
        let ns = g("NS", 2);
        let nr = g("NR", 2);
        let cap = g("Cap", 1);
        let wk = consts["Wk"]
            .as_array()
            .map(|a| a.iter().map(|x| (x.as_u64().unwrap_or(1) - 1) as u8).collect())
            .unwrap_or(vec![0, 1]);
        take_drops();
        ChanSut {
            ch: F::new(cap),
            sends: Slots::new(ns),
            recvs: Slots::new(nr),
            strm: Slots::new(1),
            ns,
            nr,
            cap,
            wk,
            maxv: g("MaxV", 4) as u32,
            maxh: g("MaxH", 1),
            with_stream: consts["WithStream"].as_bool().unwrap_or(false),
            with_cancel: consts["WithCancel"].as_bool().unwrap_or(true),
            growing,
            dead: false,
            last_view: RefCell::new(Value::Null),
            closed_by_last_op: false,
            next_val: 1,
            in_use: Vec::new(),
        }
    }

    fn is_closed(&self) -> bool {
        self.ch
            .snapshot()
            .map_or(false, |s| s.flags.iter().any(|(n, v)| *n == "is_closed" && *v != 0))
    }

    fn with_drops(mut ev: Value) -> Value {
        let d = take_drops();
        ev["dropped"] = json!(d);
        ev
    }
}

impl<F: ChanFlavour> Drop for ChanSut<F> {
    fn drop(&mut self) {
        self.sends.drop_live();
        self.recvs.drop_live();
        self.strm.drop_live();
        while self.ch.drop_sender() {}
        while self.ch.drop_receiver() {}
        self.ch.destroy();
        take_drops();
    }
}

fn poll_res<T>(r: Result<Poll<T>, String>) -> (&'static str, Option<T>) {
    match r {
        Ok(Poll::Ready(v)) => ("ready", Some(v)),
        Ok(Poll::Pending) => ("pending", None),
        Err(_) => ("panic", None),
    }
}

impl<F: ChanFlavour> Sut for ChanSut<F> {
    fn apply(&mut self, e: &Value) -> Option<Value> {
        if self.dead {
            return None;
        }
        let op = e["op"].as_str()?;
        let was_closed = self.is_closed();
        take_drops();
        let out = match op {
            "create_send" => {
                let s = slot_of(e, "s");
                let v = e["v"].as_u64()? as u32;
                if s == 0 || s > self.ns || self.sends.is_live(s) {
                    return None;
                }
                let ch = &self.ch;
                let fut = lib(|| ch.send(Tag(v)));
                match fut {
                    Ok(Some(f)) => {
                        self.sends.put(s, f);
                        self.in_use.push(v);
                        json!({"op": op, "s": s, "v": v})
                    }
                    Ok(None) => return None,
                    Err(_) => json!({"op": op, "s": s, "v": v, "res": "panic"}),
                }
            }
            "poll_send" | "poll_send_done" => {
                let s = slot_of(e, "s");
                let term = self.sends.get(s)?.is_terminated();
                if (op == "poll_send") == term {
                    return None;
                }
                let vr = variant_of(&e["w"]);
                let waker = waker(b's', s, vr);
                let mut cx = Context::from_waker(&waker);
                let fut = self.sends.get_pin(s)?;
                let (res, val) = poll_res(lib(move || fut.poll(&mut cx)));
                if op == "poll_send_done" {
                    json!({"op": op, "s": s, "res": if res == "panic" { "panic" } else { res }})
                } else {
                    let (res, rv) = match (res, val) {
                        ("ready", Some(Ok(()))) => ("ok", 0),
                        ("ready", Some(Err(ChannelSendError(t)))) => ("err", consume(t)),
                        (r, _) => (r, 0),
                    };
                    json!({"op": op, "s": s, "w": variant_name(vr), "res": res, "rv": rv})
                }
            }
            "cancel_send" => {
                let s = slot_of(e, "s");
                let fut = self.sends.get_mut_unpinned(s)?;
                match lib(|| F::cancel(fut)) {
                    Ok(Some(t)) => json!({"op": op, "s": s, "res": "some", "rv": consume(t)}),
                    Ok(None) => json!({"op": op, "s": s, "res": "none", "rv": 0}),
                    Err(_) => json!({"op": op, "s": s, "res": "panic"}),
                }
            }
            "drop_send" => {
                let s = slot_of(e, "s");
                if !self.sends.is_live(s) {
                    return None;
                }
                match self.sends.drop_slot(s) {
                    Ok(()) => json!({"op": op, "s": s}),
                    Err(_) => json!({"op": op, "s": s, "res": "panic"}),
                }
            }
            "create_recv" => {
                let r = slot_of(e, "r");
                if r == 0 || r > self.nr || self.recvs.is_live(r) {
                    return None;
                }
                let ch = &self.ch;
                match lib(|| ch.receive()) {
                    Ok(Some(f)) => {
                        self.recvs.put(r, f);
                        json!({"op": op, "r": r})
                    }
                    Ok(None) => return None,
                    Err(_) => json!({"op": op, "r": r, "res": "panic"}),
                }
            }
            "poll_recv" | "poll_recv_done" => {
                let r = slot_of(e, "r");
                let term = self.recvs.get(r)?.is_terminated();
                if (op == "poll_recv") == term {
                    return None;
                }
                let vr = variant_of(&e["w"]);
                let waker = waker(b'r', r, vr);
                let mut cx = Context::from_waker(&waker);
                let fut = self.recvs.get_pin(r)?;
                let (res, val) = poll_res(lib(move || fut.poll(&mut cx)));
                if op == "poll_recv_done" {
                    json!({"op": op, "r": r, "res": res})
                } else {
                    let (res, v) = match (res, val) {
                        ("ready", Some(Some(t))) => ("some", consume(t)),
                        ("ready", Some(None)) => ("none", 0),
                        (x, _) => (x, 0),
                    };
                    json!({"op": op, "r": r, "w": variant_name(vr), "res": res, "v": v})
                }
            }
            "drop_recv" => {
                let r = slot_of(e, "r");
                if !self.recvs.is_live(r) {
                    return None;
                }
                match self.recvs.drop_slot(r) {
                    Ok(()) => json!({"op": op, "r": r}),
                    Err(_) => json!({"op": op, "r": r, "res": "panic"}),
                }
            }
            "try_send" => {
                let v = e["v"].as_u64()? as u32;
                let ch = &self.ch;
                match lib(|| ch.try_send(Tag(v))) {
                    Ok(Some(Ok(()))) => {
                        self.in_use.push(v);
                        json!({"op": op, "v": v, "res": "ok", "rv": 0})
                    }
                    Ok(Some(Err(TrySendError::Full(t)))) => json!({"op": op, "v": v, "res": "full", "rv": consume(t)}),
                    Ok(Some(Err(TrySendError::Closed(t)))) => json!({"op": op, "v": v, "res": "closed", "rv": consume(t)}),
                    Ok(None) => return None,
                    Err(_) => json!({"op": op, "v": v, "res": "panic"}),
                }
            }
            "try_recv" => {
                let ch = &self.ch;
                match lib(|| ch.try_receive()) {
                    Ok(Some(Ok(t))) => json!({"op": op, "res": "some", "v": consume(t)}),
                    Ok(Some(Err(TryReceiveError::Empty))) => json!({"op": op, "res": "empty", "v": 0}),
                    Ok(Some(Err(TryReceiveError::Closed))) => json!({"op": op, "res": "closed", "v": 0}),
                    Ok(None) => return None,
                    Err(_) => json!({"op": op, "res": "panic"}),
                }
            }
            "close" => {
                let ch = &self.ch;
                let st = self.strm.get(1);
                match lib(|| ch.close().or_else(|| st.and_then(|x| F::stream_close(x)))) {
                    Ok(Some(CloseStatus::NewlyClosed)) => json!({"op": op, "res": "newly"}),
                    Ok(Some(CloseStatus::AlreadyClosed)) => json!({"op": op, "res": "already"}),
                    Ok(None) => return None,
                    Err(_) => json!({"op": op, "res": "panic"}),
                }
            }
            "create_stream" => {
                if self.strm.is_live(1) {
                    return None;
                }
                let ch = &mut self.ch;
                match lib(|| ch.stream()) {
                    Ok(Some(st)) => {
                        self.strm.put(1, st);
                        json!({"op": op})
                    }
                    Ok(None) => return None,
                    Err(_) => json!({"op": op, "res": "panic"}),
                }
            }
            "stream_next" => {
                let vr = variant_of(&e["w"]);
                let waker = waker(b'r', self.nr + 1, vr);
                let mut cx = Context::from_waker(&waker);
                let st = self.strm.get_pin(1)?;
                let (res, val) = poll_res(lib(move || st.poll_next(&mut cx)));
                let (res, v) = match (res, val) {
                    ("ready", Some(Some(t))) => ("some", consume(t)),
                    ("ready", Some(None)) => ("none", 0),
                    (x, _) => (x, 0),
                };
                json!({"op": op, "w": variant_name(vr), "res": res, "v": v})
            }
            "drop_stream" => {
                if !self.strm.is_live(1) {
                    return None;
                }
                match self.strm.drop_slot(1) {
                    Ok(()) => json!({"op": op}),
                    Err(_) => json!({"op": op, "res": "panic"}),
                }
            }
            "clone_sender" | "drop_sender" | "clone_receiver" | "drop_receiver" => {
                let ch = &mut self.ch;
                let r = lib(|| match op {
                    "clone_sender" => ch.clone_sender(),
                    "drop_sender" => ch.drop_sender(),
                    "clone_receiver" => ch.clone_receiver(),
                    _ => ch.drop_receiver(),
                });
                match r {
                    Ok(true) => json!({"op": op}),
                    Ok(false) => return None,
                    Err(_) => json!({"op": op, "res": "panic"}),
                }
            }
            "destroy" => {
                if !self.sends.live_slots().is_empty() || !self.recvs.live_slots().is_empty() || self.strm.is_live(1) {
                    return None;
                }
                let _ = self.view();
                if !self.ch.destroy() {
                    return None;
                }
                self.dead = true;
                json!({"op": op})
            }
            _ => return None,
        };
        self.closed_by_last_op = !self.dead && !was_closed && self.is_closed();
        let out = Self::with_drops(out);
        // bookkeeping of ids for the random driver
        let gone: Vec<u32> = ["v", "rv"]
            .iter()
            .filter_map(|k| out.get(*k).and_then(|x| x.as_u64()).map(|x| x as u32))
            .filter(|_| matches!(out["res"].as_str(), Some("some") | Some("err") | Some("full") | Some("closed")))
            .chain(out["dropped"].as_array().unwrap().iter().map(|x| x.as_u64().unwrap() as u32))
            .collect();
        self.in_use.retain(|x| !gone.contains(x));
        Some(out)
    }

    fn view(&self) -> Value {
        if self.dead {
            let mut v = self.last_view.borrow().clone();
            v["dead"] = json!(true);
            v["buflen"] = json!(0);
            return v;
        }
        let snap = match self.ch.snapshot() {
            Some(s) => s,
            None => return json!({"dead": true}),
        };
        let xr = self.nr + 1;
        let mut rtable = Vec::new();
        let mut stable = Vec::new();
        let mut rst = vec![json!("none"); xr];
        let mut rtask = vec![json!("-"); xr];
        let mut rterm = vec![json!(false); xr];
        let mut sst = vec![json!("none"); self.ns];
        let mut stask = vec![json!("-"); self.ns];
        let mut sval = vec![json!(0); self.ns];
        let mut sterm = vec![json!(false); self.ns];
        for s in self.sends.live_slots() {
            let f = self.sends.get(s).unwrap();
            let n = F::send_node(f);
            stable.push((n.addr, s));
            sst[s - 1] = json!(SST.get(n.state as usize).copied().unwrap_or("?"));
            stask[s - 1] = json!(task_name(n.waker, b's', s));
            sval[s - 1] = json!(n.extra.saturating_sub(1));
            sterm[s - 1] = json!(f.is_terminated());
        }
        for r in self.recvs.live_slots() {
            let f = self.recvs.get(r).unwrap();
            let n = F::recv_node(f);
            rtable.push((n.addr, r));
            rst[r - 1] = json!(RST.get(n.state as usize).copied().unwrap_or("?"));
            rtask[r - 1] = json!(task_name(n.waker, b'r', r));
            rterm[r - 1] = json!(f.is_terminated());
        }
        let mut xs = "none";
        if let Some(st) = self.strm.get(1) {
            xs = if st.is_terminated() { "term" } else { "open" };
            rterm[xr - 1] = json!(st.is_terminated());
            if let Some(n) = F::stream_node(st) {
                rtable.push((n.addr, xr));
                rst[xr - 1] = json!(RST.get(n.state as usize).copied().unwrap_or("?"));
                rtask[xr - 1] = json!(task_name(n.waker, b'r', xr));
            }
        }
        let flag = |name: &str| snap.flags.iter().find(|(n, _)| *n == name).map_or(0, |(_, v)| *v);
        let qa = |name: &str| -> Vec<usize> {
            snap.queues
                .iter()
                .find(|(n, _)| *n == name)
                .map_or(vec![], |(_, v)| v.iter().map(|x| x.addr).collect())
        };
        let rq = checked_queue(&qa("receive_waiters"), &qa("receive_waiters_rev"), &rtable);
        let sq = checked_queue(&qa("send_waiters"), &qa("send_waiters_rev"), &stable);
        let mut v = json!({
            "closed": flag("is_closed") != 0,
            "buflen": flag("buffer_len"),
            "rst": rst, "rtask": rtask, "rq": rq,
            "sst": sst, "stask": stask, "sval": sval, "sq": sq,
            "sterm": sterm, "rterm": rterm, "xs": xs, "dead": false,
        });
        if F::SHARED {
            v["senders"] = json!(flag("senders"));
            v["receivers"] = json!(flag("receivers"));
        }
        *self.last_view.borrow_mut() = v.clone();
        v
    }

    fn extras(&self, view: &Value) -> Map<String, Value> {
        let mut m = Map::new();
        let idx = |key: &str| -> Value {
            Value::Array(
                view[key]
                    .as_array()
                    .map(|a| {
                        a.iter()
                            .enumerate()
                            .filter(|(_, b)| b.as_bool() == Some(true))
                            .map(|(i, _)| json!(i + 1))
                            .collect()
                    })
                    .unwrap_or_default(),
            )
        };
        m.insert("sterm".into(), idx("sterm"));
        m.insert("rterm".into(), idx("rterm"));
        m.insert("closed".into(), view["closed"].clone());
        m.insert("rq".into(), view["rq"].clone());
        m.insert("sq".into(), view["sq"].clone());
        m.insert("rnst".into(), view["rst"].clone());
        m.insert("snst".into(), view["sst"].clone());
        m
    }

    fn wake_inlock(&self, e: &Value) -> bool {
        match e["op"].as_str() {
            Some("close") => true,
            Some("drop_sender") | Some("drop_receiver") | Some("drop_stream") => self.closed_by_last_op,
            _ => false,
        }
    }

    fn may_alloc(&self, e: &Value) -> bool {
        // destroying the channel frees it; a channel backed by the growing heap
        // buffer may allocate when a value is pushed
        if e["op"] == "destroy" {
            return true;
        }
        self.growing
            && matches!(
                e["op"].as_str(),
                Some("poll_send") | Some("try_send") | Some("poll_recv") | Some("try_recv") | Some("stream_next")
            )
    }

    fn cleanup_ops(&self) -> Vec<Value> {
        if self.dead {
            return Vec::new();
        }
        let mut v = Vec::new();
        for s in self.sends.live_slots() {
            v.push(json!({"op": "drop_send", "s": s}));
        }
        for r in self.recvs.live_slots() {
            v.push(json!({"op": "drop_recv", "r": r}));
        }
        if self.strm.is_live(1) {
            v.push(json!({"op": "drop_stream"}));
        }
        let (hs, hr) = self.ch.handles();
        if F::SHARED {
            for _ in 0..hs {
                v.push(json!({"op": "drop_sender"}));
            }
            for _ in 0..hr {
                v.push(json!({"op": "drop_receiver"}));
            }
        }
        v.push(json!({"op": "destroy"}));
        v
    }

    fn random_op(&self, rng: &mut Rng) -> Value {
        let (hs, hr) = self.ch.handles();
        let fresh = || -> Option<u32> { (1..=self.maxv).find(|v| !self.in_use.contains(v)) };
        let _ = self.next_val;
        for _attempt in 0..400 {
            let s = 1 + rng.below(self.ns);
            let r = 1 + rng.below(self.nr);
            let w = variant_name(self.wk[rng.below(self.wk.len())]);
            match rng.below(40) {
                0..=3 => {
                    if !self.sends.is_live(s) && hs > 0 {
                        if let Some(v) = fresh() {
                            return json!({"op": "create_send", "s": s, "v": v});
                        }
                    }
                }
                4..=8 => {
                    if let Some(f) = self.sends.get(s) {
                        if !f.is_terminated() {
                            return json!({"op": "poll_send", "s": s, "w": w});
                        } else if rng.below(8) == 0 {
                            return json!({"op": "poll_send_done", "s": s});
                        }
                    }
                }
                9 => {
                    if self.with_cancel && self.sends.is_live(s) {
                        return json!({"op": "cancel_send", "s": s});
                    }
                }
                10 | 11 => {
                    if self.sends.is_live(s) {
                        return json!({"op": "drop_send", "s": s});
                    }
                }
                12..=15 => {
                    if !self.recvs.is_live(r) && hr > 0 {
                        return json!({"op": "create_recv", "r": r});
                    }
                }
                16..=21 => {
                    if let Some(f) = self.recvs.get(r) {
                        if !f.is_terminated() {
                            return json!({"op": "poll_recv", "r": r, "w": w});
                        } else if rng.below(8) == 0 {
                            return json!({"op": "poll_recv_done", "r": r});
                        }
                    }
                }
                22 | 23 => {
                    if self.recvs.is_live(r) {
                        return json!({"op": "drop_recv", "r": r});
                    }
                }
                24 | 25 => {
                    if self.cap > 0 && hs > 0 {
                        if let Some(v) = fresh() {
                            return json!({"op": "try_send", "v": v});
                        }
                    }
                }
                26 | 27 => {
                    if hr > 0 {
                        return json!({"op": "try_recv"});
                    }
                }
                28 => {
                    if rng.below(6) == 0 && (hs > 0 || hr > 0) {
                        return json!({"op": "close"});
                    }
                }
                29 => {
                    if self.with_stream && !self.strm.is_live(1) && hr > 0 && (!F::SHARED || hr + 1 <= self.maxh) {
                        return json!({"op": "create_stream"});
                    }
                }
                30..=33 => {
                    if self.strm.is_live(1) {
                        return json!({"op": "stream_next", "w": w});
                    }
                }
                34 => {
                    if self.strm.is_live(1) && rng.below(3) == 0 {
                        return json!({"op": "drop_stream"});
                    }
                }
                35 => {
                    if F::SHARED && hs > 0 && hs < self.maxh {
                        return json!({"op": "clone_sender"});
                    }
                }
                36 => {
                    if F::SHARED && hs > 0 && rng.below(3) == 0 {
                        return json!({"op": "drop_sender"});
                    }
                }
                37 => {
                    let total = hr + if self.strm.is_live(1) { 1 } else { 0 };
                    if F::SHARED && hr > 0 && total < self.maxh {
                        return json!({"op": "clone_receiver"});
                    }
                }
                38 => {
                    if F::SHARED && hr > 0 && rng.below(3) == 0 {
                        return json!({"op": "drop_receiver"});
                    }
                }
                _ => return json!({"op": "try_recv"}),
            }
        }
        json!({"op": "idle"})
    }
}
