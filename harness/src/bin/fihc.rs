//! fihc: multi-threaded executions of the Sync flavours under controlled
//! schedules (shuttle), recorded at critical-section granularity.
//!
//!   fihc --prim P --consts JSON --seed S --iters N --out FILE [--pct]
//!
//! Every primitive is instantiated with `SLock`, a `lock_api::RawMutex` whose
//! `lock()` is a scheduling point and whose `unlock()` appends the calling
//! task's operation to the global log *while the lock is still held*: that is
//! the linearization order of the critical sections.  Wake-ups delivered while
//! the caller is inside a critical section are attached to that event
//! (`wakes`); wake-ups delivered after it are events of their own (`wake`) and
//! are also listed as `taken` on the event of the call that took them.
//! The traces are validated by TLC against the observer specifications; a
//! schedule in which every task is parked (deadlock) is reported in the header.

use futures_core::future::FusedFuture;
use futures_intrusive::buffer::ArrayBuf;
use futures_intrusive::channel::{
    ChannelSendError, GenericChannel, GenericOneshotBroadcastChannel, GenericOneshotChannel, GenericStateBroadcastChannel,
    StateId,
};
use futures_intrusive::sync::{GenericManualResetEvent, GenericMutex, GenericSemaphore, GenericSharedSemaphore};
use serde_json::{json, Value};
use std::collections::HashMap;
use std::future::Future;
use std::sync::atomic::{AtomicBool, Ordering};
use std::sync::{Arc, Mutex as StdMutex};
use std::task::{Context, Poll, Wake, Waker};

// ---------------------------------------------------------------- recording

#[derive(Default)]
struct Ctx {
    op: Option<Value>,
    ev: Option<usize>,
    depth: u32,
    wakes_in: Vec<Value>,
    wakes_out: Vec<Value>,
    /// number of this call (events of one call share it)
    cid: u64,
    /// > 0: this call took the last handle of its side (dec_* logged); counts its critical sections
    split: u32,
    /// ids of payloads whose destructor ran inside the current call and were not yet attached to an event
    drops: Vec<u32>,
}

/// set by the channel programs: every event carries `dropped`, the payload ids destroyed inside it
static LOG_DROPS: AtomicBool = AtomicBool::new(false);
static RUN_ACTIVE: AtomicBool = AtomicBool::new(false);

/// Channel payload with an identity; its destructor is recorded on the event it runs in.
pub struct DTag(pub u32);
impl DTag {
    /// takes the value out of the library's hands without running the destructor
    fn id(self) -> u32 {
        let v = self.0;
        std::mem::forget(self);
        v
    }
}
impl Drop for DTag {
    fn drop(&mut self) {
        if std::thread::panicking() || !RUN_ACTIVE.load(Ordering::SeqCst) {
            return;
        }
        let id = me();
        let v = self.0;
        with_rec(|r| r.ctx.entry(id).or_default().drops.push(v));
    }
}

#[derive(Default)]
struct Rec {
    log: Vec<Value>,
    calls: u64,
    ctx: HashMap<shuttle::thread::ThreadId, Ctx>,
}

static REC: StdMutex<Option<Rec>> = StdMutex::new(None);

fn with_rec<R>(f: impl FnOnce(&mut Rec) -> R) -> R {
    let mut g = REC.lock().unwrap_or_else(|e| e.into_inner());
    f(g.get_or_insert_with(Rec::default))
}

fn me() -> shuttle::thread::ThreadId {
    shuttle::thread::current().id()
}

/// Runs one call into the library; returns the index of its event in the log.
fn call<R>(op: Value, f: impl FnOnce() -> R) -> (R, usize) {
    let id = me();
    with_rec(|r| {
        r.calls += 1;
        let cid = r.calls;
        let c = r.ctx.entry(id).or_default();
        c.op = Some(op.clone());
        c.ev = None;
        c.cid = cid;
        c.split = 0;
        c.drops.clear();
        c.wakes_out.clear();
    });
    let out = f();
    let idx = with_rec(|r| {
        let (ev, taken, split) = {
            let c = r.ctx.entry(id).or_default();
            c.op = None;
            (c.ev.take(), std::mem::take(&mut c.wakes_out), std::mem::take(&mut c.split))
        };
        if split > 0 {
            // the drop of the last handle of a side has returned: by now the channel has to be closed
            r.log.push(json!({"op": "drop_returned", "wakes": [], "taken": []}));
        }
        let idx = match ev {
            Some(i) => i,
            None => {
                // no critical section: the call touched only the caller's own objects
                let mut e = op.clone();
                e["wakes"] = json!([]);
                r.log.push(e);
                r.log.len() - 1
            }
        };
        r.log[idx]["taken"] = json!(taken);
        if LOG_DROPS.load(Ordering::SeqCst) {
            // destructors that ran outside the critical sections of the call
            let rest = std::mem::take(&mut r.ctx.entry(id).or_default().drops);
            let mut all: Vec<Value> = r.log[idx].get("dropped").and_then(|d| d.as_array().cloned()).unwrap_or_default();
            all.extend(rest.into_iter().map(|x| json!(x)));
            r.log[idx]["dropped"] = json!(all);
        }
        idx
    });
    (out, idx)
}

fn set_res(idx: usize, fields: Value) {
    with_rec(|r| {
        if let Some(m) = fields.as_object() {
            for (k, v) in m {
                r.log[idx][k] = v.clone();
            }
        }
    });
}

/// The lock all primitives under test are instantiated with.
pub struct SLock {
    held: AtomicBool,
}

unsafe impl lock_api::RawMutex for SLock {
    #[allow(clippy::declare_interior_mutable_const)]
    const INIT: SLock = SLock { held: AtomicBool::new(false) };
    type GuardMarker = lock_api::GuardSend;
    fn lock(&self) {
        // every lock acquisition is a scheduling point
        shuttle::thread::yield_now();
        while self.held.swap(true, Ordering::Acquire) {
            shuttle::thread::yield_now();
        }
        let id = me();
        with_rec(|r| r.ctx.entry(id).or_default().depth += 1);
    }
    fn try_lock(&self) -> bool {
        if !self.held.swap(true, Ordering::Acquire) {
            let id = me();
            with_rec(|r| r.ctx.entry(id).or_default().depth += 1);
            true
        } else {
            false
        }
    }
    unsafe fn unlock(&self) {
        let id = me();
        with_rec(|r| {
            let (op, wakes, first) = {
                let c = r.ctx.entry(id).or_default();
                c.depth = c.depth.saturating_sub(1);
                (c.op.clone(), std::mem::take(&mut c.wakes_in), c.ev.is_none())
            };
            if let Some(mut e) = op {
                e["wakes"] = json!(wakes);
                if LOG_DROPS.load(Ordering::SeqCst) {
                    e["dropped"] = json!(std::mem::take(&mut r.ctx.entry(id).or_default().drops));
                }
                let split = r.ctx.entry(id).or_default().split;
                if split > 0 {
                    // the critical sections after the decrement that took the last handle: the first
                    // one has to close the channel, the second one (receivers) clears the buffer
                    e["op"] = json!(if split == 1 { "late_close" } else { "late_clear" });
                    r.log.push(e);
                    let n = r.log.len() - 1;
                    let c = r.ctx.entry(id).or_default();
                    c.split += 1;
                    if split == 1 {
                        c.ev = Some(n);
                    }
                } else {
                    // events of a call that takes several critical sections share `cid`
                    e["cid"] = json!(r.ctx.entry(id).or_default().cid);
                    r.log.push(e);
                    let n = r.log.len() - 1;
                    let c = r.ctx.entry(id).or_default();
                    if first {
                        c.ev = Some(n);
                    }
                }
            }
        });
        self.held.store(false, Ordering::Release);
    }
}

/// Handle counters of the shared channels (pass-through atomics of the verification build): every
/// operation on them is a scheduling point, like a lock acquisition.
fn atomic_before() {
    shuttle::thread::yield_now();
}

/// The decrement that takes the last handle of a side is logged where it happens; the close (and
/// clear) that follow are critical sections of their own, between which other threads may run.
fn atomic_after(aop: &'static str, old: usize) {
    if aop != "fetch_sub" || old != 1 {
        return;
    }
    let id = me();
    with_rec(|r| {
        let name = match &r.ctx.entry(id).or_default().op {
            Some(o) => o["op"].as_str().unwrap_or("").to_string(),
            None => return,
        };
        let dec = match name.as_str() {
            "drop_sender" => "dec_sender",
            "drop_receiver" => "dec_receiver",
            _ => return,
        };
        r.log.push(json!({"op": dec, "wakes": [], "taken": []}));
        let n = r.log.len() - 1;
        let c = r.ctx.entry(id).or_default();
        c.split = 1;
        c.ev = Some(n);
    });
}

struct TaskWaker {
    ident: Value,
    thread: shuttle::thread::Thread,
}

impl Wake for TaskWaker {
    fn wake(self: Arc<Self>) {
        self.wake_by_ref()
    }
    fn wake_by_ref(self: &Arc<Self>) {
        let id = me();
        with_rec(|r| {
            let inside = r.ctx.entry(id).or_default().depth > 0;
            if inside {
                r.ctx.entry(id).or_default().wakes_in.push(self.ident.clone());
            } else {
                r.log.push(json!({"op": "wake", "w": self.ident.clone()}));
                r.ctx.entry(id).or_default().wakes_out.push(self.ident.clone());
            }
        });
        self.thread.unpark();
    }
}

fn mk_waker(ident: Value) -> Waker {
    Waker::from(Arc::new(TaskWaker { ident, thread: shuttle::thread::current() }))
}

/// Runs the destructor of a boxed future but keeps its memory allocated (leaked): if the library
/// wrongly keeps a pointer to a dropped wait node, later accesses read stale but mapped memory and
/// the run continues to a recorded symptom instead of taking the whole process down.
fn drop_keep<F>(fut: std::pin::Pin<Box<F>>) {
    unsafe {
        let raw = Box::into_raw(std::pin::Pin::into_inner_unchecked(fut));
        std::ptr::drop_in_place(raw);
    }
}

/// A call that went through several critical sections where the specification has one atomic
/// step: all its events carry the complete call (result fields of the first, all wake-ups), are
/// marked with `cid` and `last`, and the validator picks the critical section at which the call
/// takes effect. Calls with a single critical section lose the mark.
fn mark_multi(log: &mut Vec<Value>) {
    let mut groups: HashMap<u64, Vec<usize>> = HashMap::new();
    for (i, e) in log.iter().enumerate() {
        if let Some(c) = e.get("cid").and_then(|c| c.as_u64()) {
            groups.entry(c).or_default().push(i);
        }
    }
    for (_, idx) in groups {
        if idx.len() == 1 {
            log[idx[0]].as_object_mut().unwrap().remove("cid");
            continue;
        }
        let mut full = log[idx[0]].clone();
        let mut wakes = Vec::new();
        for &i in &idx {
            if let Some(w) = log[i]["wakes"].as_array() {
                wakes.extend(w.iter().cloned());
            }
        }
        full["wakes"] = json!(wakes);
        for (k, &i) in idx.iter().enumerate() {
            let mut e = full.clone();
            e["last"] = json!(k + 1 == idx.len());
            e["csn"] = json!(k + 1);
            log[i] = e;
        }
    }
}

fn choice(n: u32) -> u32 {
    use shuttle::rand::Rng;
    shuttle::rand::thread_rng().gen_range(0..n)
}
fn variant() -> &'static str {
    if choice(3) == 0 {
        "B"
    } else {
        "A"
    }
}

// ----------------------------------------------------------------- programs

fn prog_mutex(consts: &Value) {
    let k = consts["K"].as_u64().unwrap_or(3) as usize;
    let fair = consts["Fair"].as_bool().unwrap_or(false);
    let rounds = consts["Rounds"].as_u64().unwrap_or(2);
    let m: &'static GenericMutex<SLock, u32> = Box::leak(Box::new(GenericMutex::new(0, fair)));
    let mut hs = Vec::new();
    for t in 1..=k {
        hs.push(shuttle::thread::spawn(move || {
            for _ in 0..rounds {
                if choice(4) == 0 {
                    let (g, i) = call(json!({"op": "try_lock"}), || m.try_lock());
                    set_res(i, json!({"res": if g.is_some() { "some" } else { "none" }}));
                    if let Some(mut g) = g {
                        // a non-atomic read-modify-write under the guard
                        let v = *g;
                        shuttle::thread::yield_now();
                        *g = v + 1;
                        call(json!({"op": "drop_guard"}), move || drop(g));
                    }
                    continue;
                }
                let (fut, _) = call(json!({"op": "create", "f": t}), || m.lock());
                let mut fut = Box::pin(fut);
                let mut guard = None;
                loop {
                    let v = variant();
                    let w = mk_waker(json!([t, v]));
                    let mut cx = Context::from_waker(&w);
                    let (r, i) = call(json!({"op": "poll", "f": t, "w": v}), || fut.as_mut().poll(&mut cx));
                    match r {
                        Poll::Ready(g) => {
                            set_res(i, json!({"res": "ready", "fterm": fut.is_terminated()}));
                            guard = Some(g);
                            break;
                        }
                        Poll::Pending => {
                            set_res(i, json!({"res": "pending", "fterm": fut.is_terminated()}));
                            if choice(5) == 0 {
                                break; // give up (timeout): the future is dropped while pending
                            }
                            shuttle::thread::park();
                        }
                    }
                }
                if let Some(mut g) = guard {
                    let v = *g;
                    shuttle::thread::yield_now();
                    *g = v + 1;
                    call(json!({"op": "drop_guard"}), move || drop(g));
                }
                call(json!({"op": "drop", "f": t}), move || drop_keep(fut));
            }
        }));
    }
    for h in hs {
        h.join().unwrap();
    }
}

macro_rules! prog_semaphore_impl {
    ($name:ident, $ty:ty) => {
        fn $name(consts: &Value) {
    let k = consts["K"].as_u64().unwrap_or(3) as usize;
    let fair = consts["Fair"].as_bool().unwrap_or(false);
    let init = consts["Init0"].as_u64().unwrap_or(2) as usize;
    // optional fixed roles [[permits, gives_up], ...]: one round, no try_acquire; a task that gives up
    // never parks, the others never give up
    // (a third kind of role, [n, 2], only calls release(n) once)
    let releases: Vec<bool> =
        consts["Roles"].as_array().map(|a| a.iter().map(|r| r[1].as_u64() == Some(2)).collect()).unwrap_or_default();
    let roles: Option<Vec<(usize, bool)>> = consts["Roles"].as_array().map(|a| {
        a.iter().map(|r| (r[0].as_u64().unwrap_or(1) as usize, r[1].as_u64().unwrap_or(0) == 1)).collect()
    });
    let rounds = if roles.is_some() { 1 } else { consts["Rounds"].as_u64().unwrap_or(2) };
    let s: &'static $ty = Box::leak(Box::new(<$ty>::new(fair, init)));
    let mut hs = Vec::new();
    for t in 1..=k {
        let role = roles.as_ref().and_then(|r| r.get(t - 1).copied());
        // [n, 3]: a task that only uses try_acquire(n), three times, giving the permits back each time
        if consts["Roles"].as_array().and_then(|a| a.get(t - 1)).map_or(false, |r| r[1].as_u64() == Some(3)) {
            let n = role.map_or(1, |r| r.0);
            hs.push(shuttle::thread::spawn(move || {
                for _ in 0..3 {
                    let (g, i) = call(json!({"op": "try_acquire", "n": n}), || s.try_acquire(n));
                    set_res(i, json!({"res": if g.is_some() { "some" } else { "none" }}));
                    if let Some(g) = g {
                        shuttle::thread::yield_now();
                        call(json!({"op": "drop_releaser", "a": n}), move || drop(g));
                    }
                    shuttle::thread::yield_now();
                }
            }));
            continue;
        }
        if releases.get(t - 1).copied().unwrap_or(false) {
            let n = role.map_or(1, |r| r.0);
            hs.push(shuttle::thread::spawn(move || {
                for _ in 0..choice(4) {
                    shuttle::thread::yield_now();
                }
                call(json!({"op": "release", "n": n}), || s.release(n));
            }));
            continue;
        }
        hs.push(shuttle::thread::spawn(move || {
            for _ in 0..rounds {
                let n = match role {
                    Some((n, _)) => n,
                    None => 1 + choice(init as u32) as usize,
                };
                if role.is_none() && choice(4) == 0 {
                    let (g, i) = call(json!({"op": "try_acquire", "n": n}), || s.try_acquire(n));
                    set_res(i, json!({"res": if g.is_some() { "some" } else { "none" }}));
                    if let Some(g) = g {
                        shuttle::thread::yield_now();
                        call(json!({"op": "drop_releaser", "a": n}), move || drop(g));
                    }
                    continue;
                }
                let (fut, _) = call(json!({"op": "create", "f": t, "n": n}), || s.acquire(n));
                let mut fut = Box::pin(fut);
                let mut rel = None;
                loop {
                    let v = variant();
                    let w = mk_waker(json!([t, v]));
                    let mut cx = Context::from_waker(&w);
                    let (r, i) = call(json!({"op": "poll", "f": t, "w": v}), || fut.as_mut().poll(&mut cx));
                    match r {
                        Poll::Ready(g) => {
                            set_res(i, json!({"res": "ready", "fterm": fut.is_terminated()}));
                            rel = Some(g);
                            break;
                        }
                        Poll::Pending => {
                            set_res(i, json!({"res": "pending", "fterm": fut.is_terminated()}));
                            match role {
                                Some((_, true)) => {
                                    for _ in 0..choice(3) {
                                        shuttle::thread::yield_now();
                                    }
                                    break;
                                }
                                Some((_, false)) => {}
                                None => {
                                    if choice(5) == 0 {
                                        break;
                                    }
                                }
                            }
                            shuttle::thread::park();
                        }
                    }
                }
                if let Some(mut g) = rel {
                    shuttle::thread::yield_now();
                    if role.is_none() && n > 0 && choice(3) == 0 {
                        // the explicit way: disarm the releaser, then release() by hand
                        let (v, i) = call(json!({"op": "disarm", "a": n}), || g.disarm());
                        set_res(i, json!({"res": "ok", "val": v}));
                        call(json!({"op": "drop_releaser", "a": 0}), move || drop(g));
                        call(json!({"op": "release", "n": n}), || s.release(n));
                    } else {
                        call(json!({"op": "drop_releaser", "a": n}), move || drop(g));
                    }
                }
                call(json!({"op": "drop", "f": t}), move || drop_keep(fut));
                if choice(2) == 0 {
                    let (v, i) = call(json!({"op": "permits"}), || s.permits());
                    set_res(i, json!({"res": "ok", "val": v}));
                }
            }
        }));
    }
    for h in hs {
        h.join().unwrap();
    }
    let (v, i) = call(json!({"op": "permits"}), || s.permits());
    set_res(i, json!({"res": "ok", "val": v}));
}
    };
}
prog_semaphore_impl!(prog_semaphore, GenericSemaphore<SLock>);
prog_semaphore_impl!(prog_semaphore_shared, GenericSharedSemaphore<SLock>);

fn prog_event(consts: &Value) {
    let k = consts["K"].as_u64().unwrap_or(3) as usize;
    let ev: &'static GenericManualResetEvent<SLock> = Box::leak(Box::new(GenericManualResetEvent::new(false)));
    let mut hs = Vec::new();
    for t in 1..=k {
        hs.push(shuttle::thread::spawn(move || {
            let (fut, _) = call(json!({"op": "create", "f": t}), || ev.wait());
            let mut fut = Box::pin(fut);
            loop {
                let v = variant();
                let w = mk_waker(json!([t, v]));
                let mut cx = Context::from_waker(&w);
                let (r, i) = call(json!({"op": "poll", "f": t, "w": v}), || fut.as_mut().poll(&mut cx));
                match r {
                    Poll::Ready(()) => {
                        set_res(i, json!({"res": "ready", "fterm": fut.is_terminated()}));
                        break;
                    }
                    Poll::Pending => {
                        set_res(i, json!({"res": "pending", "fterm": fut.is_terminated()}));
                        if choice(6) == 0 {
                            break;
                        }
                        shuttle::thread::park();
                    }
                }
            }
            call(json!({"op": "drop", "f": t}), move || drop_keep(fut));
        }));
    }
    // a resetter that races with the setter
    hs.push(shuttle::thread::spawn(move || {
        for _ in 0..2 {
            call(json!({"op": "reset"}), || ev.reset());
            let (b, i) = call(json!({"op": "is_set"}), || ev.is_set());
            set_res(i, json!({"res": if b { "true" } else { "false" }}));
        }
    }));
    // the setter keeps setting until every waiter is gone (a waiter that starts
    // waiting after a reset needs another set)
    let left = Arc::new(std::sync::atomic::AtomicUsize::new(k));
    let left2 = left.clone();
    hs.push(shuttle::thread::spawn(move || {
        while left2.load(Ordering::SeqCst) > 0 {
            call(json!({"op": "set"}), || ev.set());
            shuttle::thread::yield_now();
        }
    }));
    let n = hs.len();
    for (i, h) in hs.into_iter().enumerate() {
        h.join().unwrap();
        if i + 2 < n {
            left.fetch_sub(1, Ordering::SeqCst);
        }
    }
}

type Chan = GenericChannel<SLock, DTag, ArrayBuf<DTag, [DTag; 1]>>;
type Chan0 = GenericChannel<SLock, DTag, ArrayBuf<DTag, [DTag; 0]>>;

macro_rules! prog_mpmc_impl {
    ($name:ident, $ty:ty) => {
        fn $name(consts: &Value) {
            let np = consts["NS"].as_u64().unwrap_or(2) as usize;
            let nc = consts["NR"].as_u64().unwrap_or(2) as usize;
            let per = consts["PerProducer"].as_u64().unwrap_or(2) as u32;
            let cap = consts["Cap"].as_u64().unwrap_or(1) as usize;
            let ch: &'static $ty = Box::leak(Box::new(<$ty>::new()));
            let done = Arc::new(std::sync::atomic::AtomicUsize::new(0));
            let mut hs = Vec::new();
            for p in 1..=np {
                let done = done.clone();
                hs.push(shuttle::thread::spawn(move || {
                    for j in 0..per {
                        let v = (p as u32 - 1) * per + j + 1;
                        if cap > 0 && choice(3) == 0 {
                            // the non-blocking API first; a full channel falls back to the send future
                            use futures_intrusive::channel::TrySendError;
                            let (r, i) = call(json!({"op": "try_send", "v": v}), || ch.try_send(DTag(v)));
                            match r {
                                Ok(()) => {
                                    set_res(i, json!({"res": "ok", "rv": 0}));
                                    continue;
                                }
                                Err(TrySendError::Closed(x)) => {
                                    set_res(i, json!({"res": "closed", "rv": x.id()}));
                                    continue;
                                }
                                Err(TrySendError::Full(x)) => set_res(i, json!({"res": "full", "rv": x.id()})),
                            }
                        }
                        let (fut, _) = call(json!({"op": "create_send", "s": p, "v": v}), || ch.send(DTag(v)));
                        let mut fut = Box::pin(fut);
                        loop {
                            let vr = variant();
                            let w = mk_waker(json!(["s", p, vr]));
                            let mut cx = Context::from_waker(&w);
                            let (r, i) = call(json!({"op": "poll_send", "s": p, "w": vr}), || fut.as_mut().poll(&mut cx));
                            match r {
                                Poll::Ready(Ok(())) => {
                                    set_res(i, json!({"res": "ok", "rv": 0, "fterm": fut.is_terminated()}));
                                    break;
                                }
                                Poll::Ready(Err(ChannelSendError(x))) => {
                                    set_res(i, json!({"res": "err", "rv": x.id(), "fterm": fut.is_terminated()}));
                                    break;
                                }
                                Poll::Pending => {
                                    set_res(i, json!({"res": "pending", "rv": 0, "fterm": fut.is_terminated()}));
                                    shuttle::thread::park();
                                }
                            }
                        }
                        let term = fut.is_terminated();
                        let _ = term;
                        call(json!({"op": "drop_send", "s": p}), move || drop_keep(fut));
                    }
                    if done.fetch_add(1, Ordering::SeqCst) + 1 == np {
                        let (st, i) = call(json!({"op": "close"}), || ch.close());
                        set_res(i, json!({"res": if st.is_newly_closed() { "newly" } else { "already" }}));
                    }
                }));
            }
            for c in 1..=nc {
                hs.push(shuttle::thread::spawn(move || loop {
                    if choice(3) == 0 {
                        use futures_intrusive::channel::TryReceiveError;
                        let (r, i) = call(json!({"op": "try_recv"}), || ch.try_receive());
                        match r {
                            Ok(x) => {
                                set_res(i, json!({"res": "some", "v": x.id()}));
                                
                                continue;
                            }
                            Err(TryReceiveError::Closed) => {
                                set_res(i, json!({"res": "closed", "v": 0}));
                                break;
                            }
                            Err(TryReceiveError::Empty) => set_res(i, json!({"res": "empty", "v": 0})),
                        }
                    }
                    let (fut, _) = call(json!({"op": "create_recv", "r": c}), || ch.receive());
                    let mut fut = Box::pin(fut);
                    let mut end = false;
                    loop {
                        let vr = variant();
                        let w = mk_waker(json!(["r", c, vr]));
                        let mut cx = Context::from_waker(&w);
                        let (r, i) = call(json!({"op": "poll_recv", "r": c, "w": vr}), || fut.as_mut().poll(&mut cx));
                        match r {
                            Poll::Ready(Some(x)) => {
                                set_res(i, json!({"res": "some", "v": x.id(), "fterm": fut.is_terminated()}));
                                break;
                            }
                            Poll::Ready(None) => {
                                set_res(i, json!({"res": "none", "v": 0, "fterm": fut.is_terminated()}));
                                end = true;
                                break;
                            }
                            Poll::Pending => {
                                set_res(i, json!({"res": "pending", "v": 0, "fterm": fut.is_terminated()}));
                                if choice(5) == 0 {
                                    break; // abandon this receive (timeout)
                                }
                                shuttle::thread::park();
                            }
                        }
                    }
                    call(json!({"op": "drop_recv", "r": c}), move || drop_keep(fut));
                    if end {
                        break;
                    }
                }));
            }
            for h in hs {
                h.join().unwrap();
            }
        }
    };
}
prog_mpmc_impl!(prog_mpmc1, Chan);
prog_mpmc_impl!(prog_mpmc0, Chan0);


/// Shared flavour: every producer owns a Sender clone, every consumer a Receiver clone; the channel
/// closes when the last handle of one side is dropped (by whichever thread happens to be last).
fn prog_mpmc_shared(consts: &Value) {
    use futures_intrusive::buffer::FixedHeapBuf;
    use futures_intrusive::channel::shared::generic_channel;
    let np = consts["NS"].as_u64().unwrap_or(2) as usize;
    let nc = consts["NR"].as_u64().unwrap_or(2) as usize;
    let per = consts["PerProducer"].as_u64().unwrap_or(2) as u32;
    let cap = consts["Cap"].as_u64().unwrap_or(1) as usize;
    let (tx, rx) = generic_channel::<SLock, DTag, FixedHeapBuf<DTag>>(cap);
    let mut hs = Vec::new();
    for p in 1..=np {
        let (txp, _) = call(json!({"op": "clone_sender"}), || tx.clone());
        hs.push(shuttle::thread::spawn(move || {
            for j in 0..per {
                let v = (p as u32 - 1) * per + j + 1;
                if cap > 0 && choice(3) == 0 {
                    // the non-blocking API first; a full channel falls back to the send future
                    use futures_intrusive::channel::TrySendError;
                    let (r, i) = call(json!({"op": "try_send", "v": v}), || txp.try_send(DTag(v)));
                    match r {
                        Ok(()) => {
                            set_res(i, json!({"res": "ok", "rv": 0}));
                            continue;
                        }
                        Err(TrySendError::Closed(x)) => {
                            set_res(i, json!({"res": "closed", "rv": x.id()}));
                            continue;
                        }
                        Err(TrySendError::Full(x)) => set_res(i, json!({"res": "full", "rv": x.id()})),
                    }
                }
                let (fut, _) = call(json!({"op": "create_send", "s": p, "v": v}), || txp.send(DTag(v)));
                let mut fut = Box::pin(fut);
                loop {
                    let vr = variant();
                    let w = mk_waker(json!(["s", p, vr]));
                    let mut cx = Context::from_waker(&w);
                    let (r, i) = call(json!({"op": "poll_send", "s": p, "w": vr}), || fut.as_mut().poll(&mut cx));
                    match r {
                        Poll::Ready(Ok(())) => {
                            set_res(i, json!({"res": "ok", "rv": 0, "fterm": fut.is_terminated()}));
                            break;
                        }
                        Poll::Ready(Err(ChannelSendError(x))) => {
                            set_res(i, json!({"res": "err", "rv": x.id(), "fterm": fut.is_terminated()}));
                            break;
                        }
                        Poll::Pending => {
                            set_res(i, json!({"res": "pending", "rv": 0, "fterm": fut.is_terminated()}));
                            shuttle::thread::park();
                        }
                    }
                }
                call(json!({"op": "drop_send", "s": p}), move || drop_keep(fut));
            }
            call(json!({"op": "drop_sender"}), move || drop(txp));
        }));
    }
    for c in 1..=nc {
        let (rxc, _) = call(json!({"op": "clone_receiver"}), || rx.clone());
        hs.push(shuttle::thread::spawn(move || {
            let mut got = 0;
            let mut rxo = Some(rxc);
            loop {
                if choice(3) == 0 {
                    use futures_intrusive::channel::TryReceiveError;
                    let (r, i) = call(json!({"op": "try_recv"}), || rxo.as_ref().unwrap().try_receive());
                    match r {
                        Ok(x) => {
                            set_res(i, json!({"res": "some", "v": x.id()}));
                            got += 1;
                            continue;
                        }
                        Err(TryReceiveError::Closed) => {
                            set_res(i, json!({"res": "closed", "v": 0}));
                            break;
                        }
                        Err(TryReceiveError::Empty) => set_res(i, json!({"res": "empty", "v": 0})),
                    }
                }
                let (fut, _) = call(json!({"op": "create_recv", "r": c}), || rxo.as_ref().unwrap().receive());
                let mut fut = Box::pin(fut);
                // the future owns a reference of its own: the handle may go away first
                let orphan = choice(4) == 0;
                if orphan {
                    let h = rxo.take().unwrap();
                    call(json!({"op": "drop_receiver"}), move || drop(h));
                }
                let mut end = false;
                loop {
                    let vr = variant();
                    let w = mk_waker(json!(["r", c, vr]));
                    let mut cx = Context::from_waker(&w);
                    let (r, i) = call(json!({"op": "poll_recv", "r": c, "w": vr}), || fut.as_mut().poll(&mut cx));
                    match r {
                        Poll::Ready(Some(x)) => {
                            set_res(i, json!({"res": "some", "v": x.id(), "fterm": fut.is_terminated()}));
                            got += 1;
                            break;
                        }
                        Poll::Ready(None) => {
                            set_res(i, json!({"res": "none", "v": 0, "fterm": fut.is_terminated()}));
                            end = true;
                            break;
                        }
                        Poll::Pending => {
                            set_res(i, json!({"res": "pending", "v": 0, "fterm": fut.is_terminated()}));
                            if choice(5) == 0 {
                                break; // abandon this receive (timeout)
                            }
                            shuttle::thread::park();
                        }
                    }
                }
                call(json!({"op": "drop_recv", "r": c}), move || drop_keep(fut));
                // a consumer may walk away early; when all of them have, senders get their values back
                if end || orphan || (got >= 1 && choice(4) == 0) {
                    break;
                }
            }
            if let Some(h) = rxo.take() {
                call(json!({"op": "drop_receiver"}), move || drop(h));
            }
        }));
    }
    call(json!({"op": "drop_sender"}), move || drop(tx));
    call(json!({"op": "drop_receiver"}), move || drop(rx));
    for h in hs {
        h.join().unwrap();
    }
}

/// Timer service shared by threads: K tasks wait for deadlines / delays (some give up), one thread owns
/// the clock: it advances it, runs check_expirations() and reads next_expiration().
fn prog_timer(consts: &Value) {
    use futures_intrusive::timer::{GenericTimerService, MockClock, Timer};
    use std::time::Duration;
    let k = consts["K"].as_u64().unwrap_or(3) as usize;
    let rounds = consts["Rounds"].as_u64().unwrap_or(2);
    let clock: &'static MockClock = Box::leak(Box::new(MockClock::new()));
    let svc: &'static GenericTimerService<SLock> = Box::leak(Box::new(GenericTimerService::new(clock)));
    let left = Arc::new(std::sync::atomic::AtomicUsize::new(k));
    let mut hs = Vec::new();
    for t in 1..=k {
        let left = left.clone();
        hs.push(shuttle::thread::spawn(move || {
            for _ in 0..rounds {
                let fut = if choice(2) == 0 {
                    let d = choice(4) as u64;
                    let (fut, i) = call(json!({"op": "delay", "f": t, "d": d}), || svc.delay(Duration::from_millis(d)));
                    set_res(i, json!({"res": "ok", "val": fut.verif_node().extra}));
                    fut
                } else {
                    let at = choice(7) as u64;
                    call(json!({"op": "create", "f": t, "t": at, "res": "ok"}), || svc.deadline(at)).0
                };
                let mut fut = Box::pin(fut);
                loop {
                    let v = variant();
                    let w = mk_waker(json!([t, v]));
                    let mut cx = Context::from_waker(&w);
                    let (r, i) = call(json!({"op": "poll", "f": t, "w": v}), || fut.as_mut().poll(&mut cx));
                    match r {
                        Poll::Ready(()) => {
                            set_res(i, json!({"res": "ready", "fterm": fut.is_terminated()}));
                            break;
                        }
                        Poll::Pending => {
                            set_res(i, json!({"res": "pending", "fterm": fut.is_terminated()}));
                            if choice(6) == 0 {
                                break;
                            }
                            shuttle::thread::park();
                        }
                    }
                }
                call(json!({"op": "drop", "f": t}), move || drop_keep(fut));
            }
            left.fetch_sub(1, Ordering::SeqCst);
        }));
    }
    hs.push(shuttle::thread::spawn(move || {
        let mut now = 0u64;
        while left.load(Ordering::SeqCst) > 0 {
            if choice(3) != 0 {
                now += 1 + choice(2) as u64;
                call(json!({"op": "set_clock", "t": now}), || clock.set_time(now));
            }
            call(json!({"op": "check"}), || svc.check_expirations());
            let (r, i) = call(json!({"op": "next_exp"}), || svc.next_expiration());
            match r {
                Some(x) => set_res(i, json!({"res": "some", "val": x})),
                None => set_res(i, json!({"res": "none", "val": 0})),
            }
            shuttle::thread::yield_now();
        }
    }));
    for h in hs {
        h.join().unwrap();
    }
}

macro_rules! prog_oneshot_impl {
    ($name:ident, $ty:ty) => {
        fn $name(consts: &Value) {
            let k = consts["K"].as_u64().unwrap_or(3) as usize;
            let ch: &'static $ty = Box::leak(Box::new(<$ty>::new()));
            let mut hs = Vec::new();
            for t in 1..=k {
                hs.push(shuttle::thread::spawn(move || {
                    let (fut, _) = call(json!({"op": "create", "r": t}), || ch.receive());
                    let mut fut = Box::pin(fut);
                    loop {
                        let v = variant();
                        let w = mk_waker(json!([t, v]));
                        let mut cx = Context::from_waker(&w);
                        let (r, i) = call(json!({"op": "poll", "r": t, "w": v}), || fut.as_mut().poll(&mut cx));
                        match r {
                            Poll::Ready(Some(x)) => {
                                set_res(i, json!({"res": "some", "v": x, "fterm": fut.is_terminated()}));
                                break;
                            }
                            Poll::Ready(None) => {
                                set_res(i, json!({"res": "none", "v": 0, "fterm": fut.is_terminated()}));
                                break;
                            }
                            Poll::Pending => {
                                set_res(i, json!({"res": "pending", "v": 0, "fterm": fut.is_terminated()}));
                                if choice(6) == 0 {
                                    break;
                                }
                                shuttle::thread::park();
                            }
                        }
                    }
                    call(json!({"op": "drop", "r": t}), move || drop_keep(fut));
                }));
            }
            // two senders and a closer race for the one slot
            for v in 1..=2u32 {
                hs.push(shuttle::thread::spawn(move || {
                    if choice(3) == 0 {
                        shuttle::thread::yield_now();
                    }
                    let (r, i) = call(json!({"op": "send", "v": v}), || ch.send(v));
                    match r {
                        Ok(()) => set_res(i, json!({"res": "ok", "rv": 0})),
                        Err(ChannelSendError(x)) => set_res(i, json!({"res": "err", "rv": x})),
                    }
                }));
            }
            hs.push(shuttle::thread::spawn(move || {
                if choice(2) == 0 {
                    let (st, i) = call(json!({"op": "close"}), || ch.close());
                    set_res(i, json!({"res": if st.is_newly_closed() { "newly" } else { "already" }}));
                }
            }));
            for h in hs {
                h.join().unwrap();
            }
        }
    };
}
prog_oneshot_impl!(prog_oneshot, GenericOneshotChannel<SLock, u32>);
prog_oneshot_impl!(prog_oneshot_bc, GenericOneshotBroadcastChannel<SLock, u32>);

fn prog_state(consts: &Value) {
    let k = consts["K"].as_u64().unwrap_or(3) as usize;
    let n = consts["Publications"].as_u64().unwrap_or(3) as u32;
    let ch: &'static GenericStateBroadcastChannel<SLock, u32> = Box::leak(Box::new(GenericStateBroadcastChannel::new()));
    let mut hs = Vec::new();
    for t in 1..=k {
        hs.push(shuttle::thread::spawn(move || {
            let mut id = StateId::new();
            loop {
                if choice(3) == 0 {
                    // a non-blocking look first
                    let idn = id.verif_value();
                    let (r, i) = call(json!({"op": "try_recv", "id": idn}), || ch.try_receive(id));
                    match r {
                        Some((sid, x)) => {
                            set_res(i, json!({"res": "some", "sid": sid.verif_value(), "v": x}));
                            id = sid;
                        }
                        None => set_res(i, json!({"res": "none", "sid": 0, "v": 0})),
                    }
                }
                let idn = id.verif_value();
                let (fut, _) = call(json!({"op": "create", "r": t, "id": idn}), || ch.receive(id));
                let mut fut = Box::pin(fut);
                let mut end = false;
                loop {
                    let v = variant();
                    let w = mk_waker(json!([t, v]));
                    let mut cx = Context::from_waker(&w);
                    let (r, i) = call(json!({"op": "poll", "r": t, "w": v}), || fut.as_mut().poll(&mut cx));
                    match r {
                        Poll::Ready(Some((sid, x))) => {
                            set_res(i, json!({"res": "some", "sid": sid.verif_value(), "v": x, "fterm": fut.is_terminated()}));
                            id = sid;
                            break;
                        }
                        Poll::Ready(None) => {
                            set_res(i, json!({"res": "none", "sid": 0, "v": 0, "fterm": fut.is_terminated()}));
                            end = true;
                            break;
                        }
                        Poll::Pending => {
                            set_res(i, json!({"res": "pending", "sid": 0, "v": 0, "fterm": fut.is_terminated()}));
                            if choice(8) == 0 {
                                break; // abandon and start over with the same id
                            }
                            shuttle::thread::park();
                        }
                    }
                }
                call(json!({"op": "drop", "r": t}), move || drop_keep(fut));
                if end {
                    break;
                }
            }
        }));
    }
    hs.push(shuttle::thread::spawn(move || {
        for v in 1..=n {
            let (r, i) = call(json!({"op": "send", "v": v}), || ch.send(v));
            match r {
                Ok(()) => set_res(i, json!({"res": "ok", "rv": 0})),
                Err(ChannelSendError(x)) => set_res(i, json!({"res": "err", "rv": x})),
            }
            shuttle::thread::yield_now();
        }
        let (st, i) = call(json!({"op": "close"}), || ch.close());
        set_res(i, json!({"res": if st.is_newly_closed() { "newly" } else { "already" }}));
    }));
    for h in hs {
        h.join().unwrap();
    }
}

/// Shared state-broadcast channel: NSenders publisher threads own a sender clone each (the channel
/// closes when the last one is dropped), K follower threads own a receiver clone each.
fn prog_state_shared(consts: &Value) {
    use futures_intrusive::channel::shared::generic_state_broadcast_channel;
    let k = consts["K"].as_u64().unwrap_or(3) as usize;
    let n = consts["Publications"].as_u64().unwrap_or(3) as u32;
    let ns = consts["NSenders"].as_u64().unwrap_or(2) as u32;
    let (tx, rx) = generic_state_broadcast_channel::<SLock, u32>();
    let mut hs = Vec::new();
    for t in 1..=k {
        let (rxt, _) = call(json!({"op": "clone_receiver"}), || rx.clone());
        hs.push(shuttle::thread::spawn(move || {
            let mut id = StateId::new();
            let mut got = 0;
            let mut rxo = Some(rxt);
            loop {
                let rxt = match rxo.as_ref() {
                    Some(h) => h,
                    None => break,
                };
                if choice(3) == 0 {
                    // a non-blocking look first
                    let idn = id.verif_value();
                    let (r, i) = call(json!({"op": "try_recv", "id": idn}), || rxt.try_receive(id));
                    match r {
                        Some((sid, x)) => {
                            set_res(i, json!({"res": "some", "sid": sid.verif_value(), "v": x}));
                            id = sid;
                        }
                        None => set_res(i, json!({"res": "none", "sid": 0, "v": 0})),
                    }
                }
                let idn = id.verif_value();
                let (fut, _) = call(json!({"op": "create", "r": t, "id": idn}), || rxt.receive(id));
                let mut fut = Box::pin(fut);
                let mut end = false;
                // the future owns a reference of its own: the handle may go away first
                if choice(4) == 0 {
                    let h = rxo.take().unwrap();
                    call(json!({"op": "drop_receiver"}), move || drop(h));
                }
                loop {
                    let v = variant();
                    let w = mk_waker(json!([t, v]));
                    let mut cx = Context::from_waker(&w);
                    let (r, i) = call(json!({"op": "poll", "r": t, "w": v}), || fut.as_mut().poll(&mut cx));
                    match r {
                        Poll::Ready(Some((sid, x))) => {
                            set_res(i, json!({"res": "some", "sid": sid.verif_value(), "v": x, "fterm": fut.is_terminated()}));
                            id = sid;
                            got += 1;
                            break;
                        }
                        Poll::Ready(None) => {
                            set_res(i, json!({"res": "none", "sid": 0, "v": 0, "fterm": fut.is_terminated()}));
                            end = true;
                            break;
                        }
                        Poll::Pending => {
                            set_res(i, json!({"res": "pending", "sid": 0, "v": 0, "fterm": fut.is_terminated()}));
                            if choice(8) == 0 {
                                break; // abandon and start over with the same id
                            }
                            shuttle::thread::park();
                        }
                    }
                }
                call(json!({"op": "drop", "r": t}), move || drop_keep(fut));
                // a follower may leave early; when all of them have, the channel closes under the publishers
                if end || rxo.is_none() || (got >= 1 && choice(5) == 0) {
                    break;
                }
            }
            if let Some(h) = rxo.take() {
                call(json!({"op": "drop_receiver"}), move || drop(h));
            }
        }));
    }
    for p in 0..ns {
        let (txp, _) = call(json!({"op": "clone_sender"}), || tx.clone());
        hs.push(shuttle::thread::spawn(move || {
            for j in 1..=n {
                let v = p * n + j;
                let (r, i) = call(json!({"op": "send", "v": v}), || txp.send(v));
                match r {
                    Ok(()) => set_res(i, json!({"res": "ok", "rv": 0})),
                    Err(ChannelSendError(x)) => set_res(i, json!({"res": "err", "rv": x})),
                }
                shuttle::thread::yield_now();
            }
            call(json!({"op": "drop_sender"}), move || drop(txp));
        }));
    }
    call(json!({"op": "drop_sender"}), move || drop(tx));
    call(json!({"op": "drop_receiver"}), move || drop(rx));
    for h in hs {
        h.join().unwrap();
    }
}

/// Shared oneshot-broadcast channel: K receiver threads with a receiver clone each, one sender thread
/// that sends (or just goes away).
fn prog_oneshot_bc_shared(consts: &Value) {
    use futures_intrusive::channel::shared::generic_oneshot_broadcast_channel;
    let k = consts["K"].as_u64().unwrap_or(3) as usize;
    let (tx, rx) = generic_oneshot_broadcast_channel::<SLock, u32>();
    let mut hs = Vec::new();
    for t in 1..=k {
        let (rxt, _) = call(json!({"op": "clone_receiver"}), || rx.clone());
        hs.push(shuttle::thread::spawn(move || {
            let (fut, _) = call(json!({"op": "create", "r": t}), || rxt.receive());
            let mut fut = Box::pin(fut);
            // the future owns a reference of its own: the handle may go away first
            let mut rxo = Some(rxt);
            if choice(3) == 0 {
                let h = rxo.take().unwrap();
                call(json!({"op": "drop_receiver"}), move || drop(h));
            }
            loop {
                let v = variant();
                let w = mk_waker(json!([t, v]));
                let mut cx = Context::from_waker(&w);
                let (r, i) = call(json!({"op": "poll", "r": t, "w": v}), || fut.as_mut().poll(&mut cx));
                match r {
                    Poll::Ready(Some(x)) => {
                        set_res(i, json!({"res": "some", "v": x, "fterm": fut.is_terminated()}));
                        break;
                    }
                    Poll::Ready(None) => {
                        set_res(i, json!({"res": "none", "v": 0, "fterm": fut.is_terminated()}));
                        break;
                    }
                    Poll::Pending => {
                        set_res(i, json!({"res": "pending", "v": 0, "fterm": fut.is_terminated()}));
                        if choice(6) == 0 {
                            break;
                        }
                        shuttle::thread::park();
                    }
                }
            }
            call(json!({"op": "drop", "r": t}), move || drop_keep(fut));
            if let Some(h) = rxo.take() {
                call(json!({"op": "drop_receiver"}), move || drop(h));
            }
        }));
    }
    hs.push(shuttle::thread::spawn(move || {
        for v in 1..=2u32 {
            if choice(3) != 0 {
                let (r, i) = call(json!({"op": "send", "v": v}), || tx.send(v));
                match r {
                    Ok(()) => set_res(i, json!({"res": "ok", "rv": 0})),
                    Err(ChannelSendError(x)) => set_res(i, json!({"res": "err", "rv": x})),
                }
            }
            shuttle::thread::yield_now();
        }
        call(json!({"op": "drop_sender"}), move || drop(tx));
    }));
    call(json!({"op": "drop_receiver"}), move || drop(rx));
    for h in hs {
        h.join().unwrap();
    }
}

// --------------------------------------------------------------------- main

fn arg<'a>(args: &'a [String], name: &str) -> Option<&'a str> {
    args.iter().position(|a| a == name).and_then(|i| args.get(i + 1)).map(|s| s.as_str())
}

fn main() {
    std::panic::set_hook(Box::new(|_| {}));
    let args: Vec<String> = std::env::args().collect();
    let prim = arg(&args, "--prim").expect("--prim").to_string();
    let consts: Value = serde_json::from_str(arg(&args, "--consts").expect("--consts")).expect("consts json");
    let seed: u64 = arg(&args, "--seed").and_then(|s| s.parse().ok()).unwrap_or(1);
    let iters: usize = arg(&args, "--iters").and_then(|s| s.parse().ok()).unwrap_or(100);
    let out = arg(&args, "--out").expect("--out").to_string();
    let pct = args.iter().any(|a| a == "--pct");
    // re-run of one recorded schedule
    let exact: Option<u64> = arg(&args, "--exact-seed").and_then(|s| s.parse().ok());
    use std::io::Write;
    let mut f = std::io::BufWriter::new(std::fs::File::create(&out).expect("create"));
    // the run in progress, so that a crash of the code under test can be attributed to it
    let marker = format!("{}.cur", out);
    let mut nruns = 0usize;
    let mut events = 0usize;
    let mut deadlocks = 0usize;
    // one shuttle run per iteration so that a failing schedule does not hide the others
    futures_intrusive::verif::set_atomic_hooks(atomic_before, atomic_after);
    for it in 0..iters {
        let s = match exact {
            Some(x) => x,
            None => seed.wrapping_mul(1_000_003).wrapping_add(it as u64),
        };
        with_rec(|r| *r = Rec::default());
        let _ = std::fs::write(
            &marker,
            json!({"op": "run_start", "prim": prim, "flavour": "slock-threads", "consts": consts, "seed": s,
                   "schedule": if pct { "pct" } else { "random" }, "iteration": it, "base_seed": seed})
            .to_string(),
        );
        let c2 = consts.clone();
        let p2 = prim.clone();
        let body = move || match (p2.as_str(), c2["Cap"].as_u64()) {
            ("mutex", _) => prog_mutex(&c2),
            ("semaphore", _) if c2["SharedFlavour"].as_bool() == Some(true) => prog_semaphore_shared(&c2),
            ("semaphore", _) => prog_semaphore(&c2),
            ("event", _) => prog_event(&c2),
            ("mpmc", _) if c2["Shared"].as_bool() == Some(true) => prog_mpmc_shared(&c2),
            ("mpmc", Some(0)) => prog_mpmc0(&c2),
            ("mpmc", _) => prog_mpmc1(&c2),
            ("oneshot", _) if c2["Broadcast"].as_bool() == Some(true) && c2["Shared"].as_bool() == Some(true) => {
                prog_oneshot_bc_shared(&c2)
            }
            ("oneshot", _) if c2["Broadcast"].as_bool() == Some(true) => prog_oneshot_bc(&c2),
            ("oneshot", _) => prog_oneshot(&c2),
            ("state", _) if c2["Shared"].as_bool() == Some(true) => prog_state_shared(&c2),
            ("state", _) => prog_state(&c2),
            ("timer", _) => prog_timer(&c2),
            _ => panic!("unknown primitive"),
        };
        LOG_DROPS.store(prim == "mpmc", Ordering::SeqCst);
        RUN_ACTIVE.store(true, Ordering::SeqCst);
        let res = std::panic::catch_unwind(std::panic::AssertUnwindSafe(|| {
            if pct {
                let sched = shuttle::scheduler::PctScheduler::new_from_seed(s, 3, 1);
                shuttle::Runner::new(sched, Default::default()).run(body);
            } else {
                shuttle::check_random_with_seed(body, s, 1);
            }
        }));
        RUN_ACTIVE.store(false, Ordering::SeqCst);
        let failed = res.is_err();
        if failed {
            deadlocks += 1;
        }
        let mut log = with_rec(|r| std::mem::take(&mut r.log));
        if let Err(p) = &res {
            // a run that did not finish: the code under test panicked, or every task is parked
            // (a lost wake-up), or the step budget of the scheduler ran out (neither)
            let msg = if let Some(s) = p.downcast_ref::<&str>() {
                s.to_string()
            } else if let Some(s) = p.downcast_ref::<String>() {
                s.clone()
            } else {
                "panic".to_string()
            };
            let kind = if msg.contains("deadlock") {
                "deadlock"
            } else if msg.contains("exceeded max_steps") || msg.contains("max_steps") {
                "budget"
            } else {
                "panic"
            };
            let short: String = msg.chars().take(160).collect();
            if kind == "panic" {
                // calls that were in flight when the run was torn down never returned a result (the one
                // that panicked is among them, the others were suspended at a scheduling point): the
                // trace ends in front of the first event of such a call; everything before is complete
                let open: Vec<(Option<usize>, u64)> =
                    with_rec(|r| r.ctx.values().filter(|c| c.op.is_some()).map(|c| (c.ev, c.cid)).collect());
                let mut cut = log.len();
                for (ev, cid) in open {
                    if let Some(i) = ev {
                        cut = cut.min(i);
                    }
                    for (i, e) in log.iter().enumerate() {
                        if e.get("cid").and_then(|c| c.as_u64()) == Some(cid) {
                            cut = cut.min(i);
                        }
                    }
                }
                log.truncate(cut);
            }
            log.push(json!({"op": "abort", "res": kind, "msg": short, "wakes": [], "taken": []}));
        }
        mark_multi(&mut log);
        let header = json!({"op": "run_start", "prim": prim, "flavour": "slock-threads", "consts": consts,
                            "seed": s, "schedule": if pct { "pct" } else { "random" }, "aborted": failed});
        writeln!(f, "{}", header).unwrap();
        for e in &log {
            writeln!(f, "{}", e).unwrap();
            events += 1;
        }
        f.flush().unwrap();
        nruns += 1;
    }
    let _ = std::fs::remove_file(&marker);
    println!("{}", json!({"runs": nruns, "events": events, "aborted": deadlocks}));
}
