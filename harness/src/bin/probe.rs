//! probe: prints the matrix of auto-trait facts (Send / Sync / Unpin) that
//! rustc derives for the public types of futures-intrusive, instantiated with
//! witness lock, payload and buffer types.  This is the implementation's
//! "trace" for property C16; ThreadSafety.tla decides whether the facts are sound.
//!
//! The facts are observed with autoref specialisation: an inherent method that
//! exists only when the bound holds shadows a blanket trait method.

use futures_intrusive::buffer::{ArrayBuf, RingBuf};
use futures_intrusive::channel::shared as sh;
use futures_intrusive::channel::*;
use futures_intrusive::sync::*;
use futures_intrusive::timer::*;
use std::cell::Cell;
use std::collections::VecDeque;
use std::marker::PhantomData;
use std::rc::Rc;

struct P<T: ?Sized>(PhantomData<T>);
trait No {
    fn send(&self) -> bool {
        false
    }
    fn sync(&self) -> bool {
        false
    }
    fn unpin(&self) -> bool {
        false
    }
}
impl<T: ?Sized> No for P<T> {}
struct PS<T: ?Sized>(PhantomData<T>);
struct PY<T: ?Sized>(PhantomData<T>);
struct PU<T: ?Sized>(PhantomData<T>);
struct PT<T: ?Sized>(PhantomData<T>);
trait NoT {
    fn timer(&self) -> bool {
        false
    }
}
impl<T: ?Sized> NoT for PT<T> {}
impl<T: ?Sized + Timer> PT<T> {
    fn timer(&self) -> bool {
        true
    }
}
trait NoS {
    fn send(&self) -> bool {
        false
    }
}
trait NoY {
    fn sync(&self) -> bool {
        false
    }
}
trait NoU {
    fn unpin(&self) -> bool {
        false
    }
}
impl<T: ?Sized> NoS for PS<T> {}
impl<T: ?Sized> NoY for PY<T> {}
impl<T: ?Sized> NoU for PU<T> {}
impl<T: ?Sized + Send> PS<T> {
    fn send(&self) -> bool {
        true
    }
}
impl<T: ?Sized + Sync> PY<T> {
    fn sync(&self) -> bool {
        true
    }
}
impl<T: ?Sized + Unpin> PU<T> {
    fn unpin(&self) -> bool {
        true
    }
}

macro_rules! fact {
    ($out:expr, $name:expr, $t:ty) => {
        $out.push(format!(
            "\"{}\": {{\"send\": {}, \"sync\": {}, \"unpin\": {}}}",
            $name,
            PS::<$t>(PhantomData).send(),
            PY::<$t>(PhantomData).sync(),
            PU::<$t>(PhantomData).unpin()
        ));
    };
}

// ---- witnesses
trait LockOf {
    type L;
}
impl<M: lock_api::RawMutex, T> LockOf for GenericMutex<M, T> {
    type L = M;
}
type Noop = <LocalMutex<()> as LockOf>::L;
type Pl = parking_lot::RawMutex;

/// A lock type that is Send but not Sync (its flag is a `Cell`): legal for single-threaded use,
/// must never be reachable from two threads.
#[allow(dead_code)]
struct SendOnlyLock(Cell<bool>);
unsafe impl lock_api::RawMutex for SendOnlyLock {
    #[allow(clippy::declare_interior_mutable_const)]
    const INIT: SendOnlyLock = SendOnlyLock(Cell::new(false));
    type GuardMarker = lock_api::GuardNoSend;
    fn lock(&self) {
        self.0.set(true)
    }
    fn try_lock(&self) -> bool {
        !self.0.replace(true)
    }
    unsafe fn unlock(&self) {
        self.0.set(false)
    }
}
/// A lock type that is Sync but not Send (thread-affine: has to be destroyed where it was created).
#[allow(dead_code)]
struct SyncOnlyLock(std::sync::atomic::AtomicBool, PhantomData<std::sync::MutexGuard<'static, ()>>);
unsafe impl lock_api::RawMutex for SyncOnlyLock {
    #[allow(clippy::declare_interior_mutable_const)]
    const INIT: SyncOnlyLock = SyncOnlyLock(std::sync::atomic::AtomicBool::new(false), PhantomData);
    type GuardMarker = lock_api::GuardNoSend;
    fn lock(&self) {
        while self.0.swap(true, std::sync::atomic::Ordering::Acquire) {}
    }
    fn try_lock(&self) -> bool {
        !self.0.swap(true, std::sync::atomic::Ordering::Acquire)
    }
    unsafe fn unlock(&self) {
        self.0.store(false, std::sync::atomic::Ordering::Release)
    }
}

/// Sync but not Send (like a std MutexGuard)
#[derive(Clone)]
#[allow(dead_code)]
struct SyncNotSend(PhantomData<std::sync::MutexGuard<'static, i32>>);
type TSendSync = i32;
type TSendOnly = Cell<i32>;
type TNone = Rc<i32>;

/// A ring buffer that is not Send
#[allow(dead_code)]
struct NotSendBuf<T>(VecDeque<T>, usize, PhantomData<*mut ()>);
impl<T> RingBuf for NotSendBuf<T> {
    type Item = T;
    fn new() -> Self {
        NotSendBuf(VecDeque::new(), 0, PhantomData)
    }
    fn with_capacity(cap: usize) -> Self {
        NotSendBuf(VecDeque::new(), cap, PhantomData)
    }
    fn capacity(&self) -> usize {
        self.1
    }
    fn len(&self) -> usize {
        self.0.len()
    }
    fn can_push(&self) -> bool {
        self.0.len() != self.1
    }
    fn push(&mut self, item: T) {
        self.0.push_back(item)
    }
    fn pop(&mut self) -> T {
        self.0.pop_front().unwrap()
    }
}

macro_rules! per_payload {
    ($out:expr, $l:ty, $ln:expr, $t:ty, $tn:expr) => {
        fact!($out, format!("Mutex|{}|{}", $ln, $tn), GenericMutex<$l, $t>);
        fact!($out, format!("MutexLockFuture|{}|{}", $ln, $tn), GenericMutexLockFuture<'static, $l, $t>);
        fact!($out, format!("MutexGuard|{}|{}", $ln, $tn), GenericMutexGuard<'static, $l, $t>);
        fact!($out, format!("Channel|{}|{}|array", $ln, $tn), GenericChannel<$l, $t, ArrayBuf<$t, [$t; 2]>>);
        fact!($out, format!("Channel|{}|{}|notsend", $ln, $tn), GenericChannel<$l, $t, NotSendBuf<$t>>);
        fact!($out, format!("ChannelSendFuture|{}|{}", $ln, $tn), ChannelSendFuture<'static, $l, $t>);
        fact!($out, format!("ChannelReceiveFuture|{}|{}", $ln, $tn), ChannelReceiveFuture<'static, $l, $t>);
        fact!($out, format!("ChannelStream|{}|{}|array", $ln, $tn), ChannelStream<'static, $l, $t, ArrayBuf<$t, [$t; 2]>>);
        fact!($out, format!("ChannelStream|{}|{}|notsend", $ln, $tn), ChannelStream<'static, $l, $t, NotSendBuf<$t>>);
        fact!($out, format!("Sender|{}|{}|array", $ln, $tn), sh::GenericSender<$l, $t, ArrayBuf<$t, [$t; 2]>>);
        fact!($out, format!("Sender|{}|{}|notsend", $ln, $tn), sh::GenericSender<$l, $t, NotSendBuf<$t>>);
        fact!($out, format!("Receiver|{}|{}|array", $ln, $tn), sh::GenericReceiver<$l, $t, ArrayBuf<$t, [$t; 2]>>);
        fact!($out, format!("Receiver|{}|{}|notsend", $ln, $tn), sh::GenericReceiver<$l, $t, NotSendBuf<$t>>);
        fact!($out, format!("SharedChannelSendFuture|{}|{}", $ln, $tn), sh::ChannelSendFuture<$l, $t>);
        fact!($out, format!("SharedChannelReceiveFuture|{}|{}", $ln, $tn), sh::ChannelReceiveFuture<$l, $t>);
        fact!($out, format!("SharedStream|{}|{}|array", $ln, $tn), sh::SharedStream<$l, $t, ArrayBuf<$t, [$t; 2]>>);
        fact!($out, format!("SharedStream|{}|{}|notsend", $ln, $tn), sh::SharedStream<$l, $t, NotSendBuf<$t>>);
        fact!($out, format!("OneshotChannel|{}|{}", $ln, $tn), GenericOneshotChannel<$l, $t>);
        fact!($out, format!("OneshotSender|{}|{}", $ln, $tn), sh::GenericOneshotSender<$l, $t>);
        fact!($out, format!("OneshotReceiver|{}|{}", $ln, $tn), sh::GenericOneshotReceiver<$l, $t>);
    };
}
macro_rules! per_clone_payload {
    ($out:expr, $l:ty, $ln:expr, $t:ty, $tn:expr) => {
        fact!($out, format!("OneshotBroadcastChannel|{}|{}", $ln, $tn), GenericOneshotBroadcastChannel<$l, $t>);
        fact!($out, format!("OneshotBroadcastSender|{}|{}", $ln, $tn), sh::GenericOneshotBroadcastSender<$l, $t>);
        fact!($out, format!("OneshotBroadcastReceiver|{}|{}", $ln, $tn), sh::GenericOneshotBroadcastReceiver<$l, $t>);
        fact!($out, format!("StateBroadcastChannel|{}|{}", $ln, $tn), GenericStateBroadcastChannel<$l, $t>);
        fact!($out, format!("StateReceiveFuture|{}|{}", $ln, $tn), StateReceiveFuture<'static, $l, $t>);
        fact!($out, format!("SharedStateReceiveFuture|{}|{}", $ln, $tn), sh::StateReceiveFuture<$l, $t>);
        fact!($out, format!("StateSender|{}|{}", $ln, $tn), sh::GenericStateSender<$l, $t>);
        fact!($out, format!("StateReceiver|{}|{}", $ln, $tn), sh::GenericStateReceiver<$l, $t>);
    };
}
macro_rules! per_lock {
    ($out:expr, $l:ty, $ln:expr) => {
        fact!($out, format!("Lock|{}", $ln), $l);
        fact!($out, format!("Semaphore|{}", $ln), GenericSemaphore<$l>);
        fact!($out, format!("SemaphoreAcquireFuture|{}", $ln), GenericSemaphoreAcquireFuture<'static, $l>);
        fact!($out, format!("SemaphoreReleaser|{}", $ln), GenericSemaphoreReleaser<'static, $l>);
        fact!($out, format!("SharedSemaphore|{}", $ln), GenericSharedSemaphore<$l>);
        fact!($out, format!("SharedSemaphoreAcquireFuture|{}", $ln), GenericSharedSemaphoreAcquireFuture<$l>);
        fact!($out, format!("SharedSemaphoreReleaser|{}", $ln), GenericSharedSemaphoreReleaser<$l>);
        fact!($out, format!("ManualResetEvent|{}", $ln), GenericManualResetEvent<$l>);
        fact!($out, format!("WaitForEventFuture|{}", $ln), GenericWaitForEventFuture<'static, $l>);
        // the Send-future API (`Timer` trait) must only exist for thread-safe services
        $out.push(format!(
            "\"TimerService|{}\": {{\"send\": {}, \"sync\": {}, \"unpin\": {}, \"timer\": {}}}",
            $ln,
            PS::<GenericTimerService<$l>>(PhantomData).send(),
            PY::<GenericTimerService<$l>>(PhantomData).sync(),
            PU::<GenericTimerService<$l>>(PhantomData).unpin(),
            PT::<GenericTimerService<$l>>(PhantomData).timer()
        ));
        per_payload!($out, $l, $ln, TSendSync, "sendsync");
        per_payload!($out, $l, $ln, TSendOnly, "sendonly");
        per_payload!($out, $l, $ln, SyncNotSend, "synconly");
        per_payload!($out, $l, $ln, TNone, "none");
        per_clone_payload!($out, $l, $ln, TSendSync, "sendsync");
        per_clone_payload!($out, $l, $ln, SyncNotSend, "synconly");
        per_clone_payload!($out, $l, $ln, TNone, "none");
    };
}

fn main() {
    let mut out: Vec<String> = Vec::new();
    per_lock!(out, Pl, "pl");
    per_lock!(out, Noop, "noop");
    per_lock!(out, SendOnlyLock, "lsend");
    per_lock!(out, SyncOnlyLock, "lsync");
    fact!(out, "LocalTimerFuture", LocalTimerFuture<'static>);
    fact!(out, "TimerFuture", TimerFuture<'static>);
    fact!(out, "Payload|sendsync", TSendSync);
    fact!(out, "Payload|sendonly", TSendOnly);
    fact!(out, "Payload|synconly", SyncNotSend);
    fact!(out, "Payload|none", TNone);
    fact!(out, "Buffer|array|sendsync", ArrayBuf<TSendSync, [TSendSync; 2]>);
    fact!(out, "Buffer|notsend|sendsync", NotSendBuf<TSendSync>);
    println!("{{\n{}\n}}", out.join(",\n"));
    let _ = P::<i32>(PhantomData).send() || P::<i32>(PhantomData).sync() || P::<i32>(PhantomData).unpin();
}
