//! Path execution: apply operations to a system under test, record what
//! really happened as trace events, compare with the model's prediction.

use crate::infra::*;
use serde_json::{json, Map, Value};

pub trait Sut {
    /// Applies one operation. `None`: not applicable in the current real
    /// state (only happens after the code has drifted from the model).
    /// The returned event echoes op and arguments and carries `res` etc.
    fn apply(&mut self, e: &Value) -> Option<Value>;
    /// Implementation-shaped view of the current state (same keys as the
    /// model's View, without ghost variables).
    fn view(&self) -> Value;
    /// Observation fields appended to every event (term, pub, q, nst, ...).
    fn extras(&self, view: &Value) -> Map<String, Value>;
    /// Static rule: are wake-ups during this operation delivered while the
    /// primitive's lock is held?
    fn wake_inlock(&self, e: &Value) -> bool;
    /// Is this operation allowed to allocate (growing buffer)?
    fn may_alloc(&self, _e: &Value) -> bool {
        false
    }
    /// Proposes a random applicable operation (random driver).
    fn random_op(&self, rng: &mut Rng) -> Value;
    /// Operations that wind the system down at the end of a random run
    /// (drop what is alive, destroy the primitive) so that those paths are recorded too.
    fn cleanup_ops(&self) -> Vec<Value> {
        Vec::new()
    }
}

#[derive(Default)]
pub struct PathResult {
    pub recorded: Vec<Value>,
    pub drift: Option<(usize, String)>,
    pub skipped: usize,
    pub steps: usize,
}

pub struct Runner<'a> {
    pub sut: &'a mut dyn Sut,
    pub vlock: bool,
    pending: Vec<Wake>,
    pub res: PathResult,
}

fn jeq(a: &Value, b: &Value) -> bool {
    a == b
}

impl<'a> Runner<'a> {
    pub fn new(sut: &'a mut dyn Sut, vlock: bool) -> Self {
        take_wakes();
        take_allocs();
        take_panic();
        Runner { sut, vlock, pending: Vec::new(), res: PathResult::default() }
    }

    fn note_drift(&mut self, why: String) {
        if self.res.drift.is_none() {
            self.res.drift = Some((self.res.steps, why));
        }
    }

    fn record(&mut self, mut ev: Map<String, Value>) -> (Value, Value) {
        let view = self.sut.view();
        for (k, v) in self.sut.extras(&view) {
            ev.insert(k, v);
        }
        let ev = Value::Object(ev);
        self.res.recorded.push(ev.clone());
        (ev, view)
    }

    fn flush_pending(&mut self) {
        let pend = std::mem::take(&mut self.pending);
        for w in pend {
            let mut m = Map::new();
            m.insert("op".into(), json!("wake"));
            m.insert("w".into(), w.to_json());
            self.record(m);
        }
    }

    fn compare(&mut self, actual: &Value, view: &Value, exp_evt: &Value, exp_state: Option<&Value>) {
        if let Some(a) = actual.as_object() {
            for (k, v) in a {
                let ev = exp_evt.get(k);
                let same = match ev {
                    Some(x) => jeq(x, v),
                    None => {
                        (k == "wakes" || k == "taken") && v.as_array().map_or(false, |a| a.is_empty())
                            || (k == "alloc" && v.as_u64() == Some(0))
                    }
                };
                if !same {
                    self.note_drift(format!(
                        "event field '{}': code {} model {}",
                        k,
                        v,
                        ev.map_or("<absent>".to_string(), |x| x.to_string())
                    ));
                    return;
                }
            }
        }
        if let (Some(v), Some(s)) = (view.as_object(), exp_state) {
            for (k, x) in v {
                match s.get(k) {
                    Some(y) if jeq(x, y) => {}
                    Some(y) => {
                        self.note_drift(format!("state field '{}': code {} model {}", k, x, y));
                        return;
                    }
                    None => {
                        self.note_drift(format!("state field '{}' missing in model view", k));
                        return;
                    }
                }
            }
        }
    }

    /// Executes one step. `expected`: the model's event and successor view.
    pub fn step(&mut self, e: &Value, exp_state: Option<&Value>, check: bool) {
        self.res.steps += 1;
        let op = e["op"].as_str().unwrap_or("");
        if op == "wake" {
            let want = &e["w"];
            if let Some(i) = self.pending.iter().position(|w| &w.to_json() == want) {
                let w = self.pending.remove(i);
                let mut m = Map::new();
                m.insert("op".into(), json!("wake"));
                m.insert("w".into(), w.to_json());
                let (actual, view) = self.record(m);
                if check {
                    self.compare(&actual, &view, e, exp_state);
                }
            } else {
                self.res.skipped += 1;
                if check {
                    self.note_drift(format!("model expects wake {} which the code did not deliver", want));
                }
            }
            return;
        }
        if !self.pending.is_empty() {
            if check {
                let p: Vec<Value> = self.pending.iter().map(|w| w.to_json()).collect();
                self.note_drift(format!("code delivered wakes {} the model does not expect here", json!(p)));
            }
            self.flush_pending();
        }
        take_allocs();
        let actual = self.sut.apply(e);
        let allocs = take_allocs();
        let wakes = take_wakes();
        let panic = take_panic();
        let mut actual = match actual {
            Some(Value::Object(m)) => m,
            _ => {
                self.res.skipped += 1;
                if check {
                    self.note_drift(format!("operation {} not applicable to the real state", e));
                }
                // wakes cannot have happened without a call
                return;
            }
        };
        let rule_inlock = self.sut.wake_inlock(e);
        let mut inl = Vec::new();
        let mut out = Vec::new();
        for w in &wakes {
            let is_in = if self.vlock { w.inlock } else { rule_inlock };
            if is_in {
                inl.push(w.to_json());
            } else {
                out.push(w.to_json());
                self.pending.push(*w);
            }
        }
        actual.insert("wakes".into(), Value::Array(inl));
        actual.insert("taken".into(), Value::Array(out));
        let allocs = if panic.is_some() || self.sut.may_alloc(e) { 0 } else { allocs };
        actual.insert("alloc".into(), json!(allocs));
        if let Some(p) = panic {
            actual.insert("panic".into(), json!(p));
        }
        let (actual, view) = self.record(actual);
        if check {
            // the panic text is informational
            let mut cmp = actual.clone();
            if let Some(m) = cmp.as_object_mut() {
                m.remove("panic");
            }
            self.compare(&cmp, &view, e, exp_state);
        }
    }

    pub fn finish(mut self) -> PathResult {
        self.flush_pending();
        self.res
    }
}
