//! Systems under test: the intrusive list and the intrusive pairing heap,
//! driven directly through `futures_intrusive::verif`.

use crate::engine::Sut;
use crate::infra::*;
use futures_intrusive::verif::{HeapNode, LinkedList, ListNode, PairingHeap};
use serde_json::{json, Map, Value};

fn map_addr(a: usize, table: &[(usize, usize)]) -> i64 {
    if a == 0 {
        0
    } else {
        table.iter().find(|(x, _)| *x == a).map_or(-1, |(_, s)| *s as i64)
    }
}

// ------------------------------------------------------------------- list

pub struct ListSut {
    list: LinkedList<u32>,
    nodes: Vec<*mut ListNode<u32>>,
}

impl ListSut {
    pub fn new(consts: &Value) -> Self {
        let n = consts["N"].as_u64().unwrap_or(4) as usize;
        let nodes = (0..n).map(|i| Box::into_raw(Box::new(ListNode::new(i as u32 + 1)))).collect();
        ListSut { list: LinkedList::new(), nodes }
    }
    fn table(&self) -> Vec<(usize, usize)> {
        self.nodes.iter().enumerate().map(|(i, p)| (*p as usize, i + 1)).collect()
    }
    fn is_member(&self, n: usize) -> bool {
        let mut found = false;
        let addr = self.nodes[n - 1] as usize;
        self.list.verif_for_each_newest_first(1 << 16, &mut |x| {
            if x as *const _ as usize == addr {
                found = true
            }
        });
        found
    }
}

impl Drop for ListSut {
    fn drop(&mut self) {
        for p in self.nodes.drain(..) {
            unsafe { drop(Box::from_raw(p)) };
        }
    }
}

impl Sut for ListSut {
    fn apply(&mut self, e: &Value) -> Option<Value> {
        let op = e["op"].as_str()?;
        let n = slot_of(e, "n");
        let some_none = |r: Result<Option<i64>, String>, op: &str| match r {
            Ok(Some(id)) => json!({"op": op, "res": "some", "n": id}),
            Ok(None) => json!({"op": op, "res": "none", "n": 0}),
            Err(_) => json!({"op": op, "res": "panic"}),
        };
        Some(match op {
            "add_front" => {
                if n == 0 || n > self.nodes.len() || self.is_member(n) {
                    return None;
                }
                let p = self.nodes[n - 1];
                let list = &mut self.list;
                match lib(|| unsafe { list.add_front(&mut *p) }) {
                    Ok(()) => json!({"op": op, "n": n}),
                    Err(_) => json!({"op": op, "n": n, "res": "panic"}),
                }
            }
            "remove" => {
                if n == 0 || n > self.nodes.len() {
                    return None;
                }
                let p = self.nodes[n - 1];
                let list = &mut self.list;
                match lib(|| unsafe { list.remove(&mut *p) }) {
                    Ok(b) => json!({"op": op, "n": n, "res": if b { "true" } else { "false" }}),
                    Err(_) => json!({"op": op, "n": n, "res": "panic"}),
                }
            }
            "remove_first" | "remove_last" => {
                let t = self.table();
                let list = &mut self.list;
                let r = lib(|| {
                    let x = if op == "remove_first" { list.remove_first() } else { list.remove_last() };
                    x.map(|x| map_addr(x as *const _ as usize, &t))
                });
                some_none(r, op)
            }
            "peek_first" | "peek_last" => {
                let t = self.table();
                let list = &self.list;
                let r = lib(|| {
                    let x = if op == "peek_first" { list.peek_first() } else { list.peek_last() };
                    x.map(|x| map_addr(x as *const _ as usize, &t))
                });
                some_none(r, op)
            }
            "drain" | "reverse_drain" => {
                let t = self.table();
                let list = &mut self.list;
                let mut visited: Vec<i64> = Vec::with_capacity(64);
                let r = lib(|| {
                    if op == "drain" {
                        list.drain(|x| visited.push(map_addr(x as *const _ as usize, &t)))
                    } else {
                        list.reverse_drain(|x| visited.push(map_addr(x as *const _ as usize, &t)))
                    }
                });
                match r {
                    Ok(()) => json!({"op": op, "visited": visited}),
                    Err(_) => json!({"op": op, "res": "panic"}),
                }
            }
            "is_empty" => {
                let list = &self.list;
                match lib(|| list.is_empty()) {
                    Ok(b) => json!({"op": op, "res": if b { "true" } else { "false" }}),
                    Err(_) => json!({"op": op, "res": "panic"}),
                }
            }
            _ => return None,
        })
    }

    fn view(&self) -> Value {
        let t = self.table();
        let (h, tl) = self.list.verif_head_tail();
        let mut prev = Vec::new();
        let mut next = Vec::new();
        for p in &self.nodes {
            let l = unsafe { (**p).verif_links() };
            prev.push(map_addr(l[0], &t));
            next.push(map_addr(l[1], &t));
        }
        json!({"head": map_addr(h, &t), "tail": map_addr(tl, &t), "prev": prev, "next": next})
    }

    fn extras(&self, view: &Value) -> Map<String, Value> {
        view.as_object().cloned().unwrap_or_default()
    }

    fn wake_inlock(&self, _e: &Value) -> bool {
        true
    }

    fn random_op(&self, rng: &mut Rng) -> Value {
        let n = 1 + rng.below(self.nodes.len());
        match rng.below(12) {
            0..=3 => {
                if !self.is_member(n) {
                    return json!({"op": "add_front", "n": n});
                }
                json!({"op": "remove", "n": n})
            }
            4 | 5 => json!({"op": "remove", "n": n}),
            6 => json!({"op": "remove_first"}),
            7 => json!({"op": "remove_last"}),
            8 => json!({"op": if rng.below(2) == 0 { "drain" } else { "reverse_drain" }}),
            9 => json!({"op": "peek_first"}),
            10 => json!({"op": "peek_last"}),
            _ => json!({"op": "is_empty"}),
        }
    }
}

// ------------------------------------------------------------------- heap

pub struct HeapSut {
    heap: PairingHeap<u32>,
    nodes: Vec<*mut HeapNode<u32>>,
    keys: Vec<u32>,
}

impl HeapSut {
    pub fn new(consts: &Value) -> Self {
        let n = consts["N"].as_u64().unwrap_or(4) as usize;
        let nodes = (0..n).map(|_| Box::into_raw(Box::new(HeapNode::new(0u32)))).collect();
        let keys = consts["Keys"]
            .as_array()
            .map(|a| a.iter().map(|x| x.as_u64().unwrap_or(1) as u32).collect())
            .unwrap_or(vec![1, 2, 3]);
        HeapSut { heap: PairingHeap::new(), nodes, keys }
    }
    fn table(&self) -> Vec<(usize, usize)> {
        self.nodes.iter().enumerate().map(|(i, p)| (*p as usize, i + 1)).collect()
    }
    fn is_member(&self, n: usize) -> bool {
        let addr = self.nodes[n - 1] as usize;
        let mut found = false;
        self.heap.verif_for_each_preorder(1 << 16, &mut |x| {
            if x as *const _ as usize == addr {
                found = true
            }
        });
        found
    }
}

impl Drop for HeapSut {
    fn drop(&mut self) {
        for p in self.nodes.drain(..) {
            unsafe { drop(Box::from_raw(p)) };
        }
    }
}

impl Sut for HeapSut {
    fn apply(&mut self, e: &Value) -> Option<Value> {
        let op = e["op"].as_str()?;
        let n = slot_of(e, "n");
        Some(match op {
            "insert" => {
                if n == 0 || n > self.nodes.len() || self.is_member(n) {
                    return None;
                }
                let k = e["k"].as_u64()? as u32;
                let p = self.nodes[n - 1];
                unsafe { **p = k };
                let heap = &mut self.heap;
                match lib(|| unsafe { heap.insert(&mut *p) }) {
                    Ok(()) => json!({"op": op, "n": n, "k": k}),
                    Err(_) => json!({"op": op, "n": n, "k": k, "res": "panic"}),
                }
            }
            "remove" => {
                if n == 0 || n > self.nodes.len() || !self.is_member(n) {
                    return None;
                }
                let p = self.nodes[n - 1];
                let heap = &mut self.heap;
                match lib(|| unsafe { heap.remove(&mut *p) }) {
                    Ok(()) => json!({"op": op, "n": n}),
                    Err(_) => json!({"op": op, "n": n, "res": "panic"}),
                }
            }
            "peek_min" => {
                let t = self.table();
                let heap = &self.heap;
                match lib(|| heap.peek_min().map(|p| map_addr(p.as_ptr() as usize, &t))) {
                    Ok(Some(id)) => json!({"op": op, "res": "some", "n": id}),
                    Ok(None) => json!({"op": op, "res": "none", "n": 0}),
                    Err(_) => json!({"op": op, "res": "panic"}),
                }
            }
            _ => return None,
        })
    }

    fn view(&self) -> Value {
        let t = self.table();
        let mut links = vec![Vec::new(); 4];
        let mut key = Vec::new();
        for p in &self.nodes {
            let l = unsafe { (**p).verif_links() };
            for i in 0..4 {
                links[i].push(map_addr(l[i], &t));
            }
            key.push(unsafe { ***p });
        }
        json!({"root": map_addr(self.heap.verif_root(), &t), "parent": links[0], "prev": links[1],
               "next": links[2], "child": links[3], "key": key})
    }

    fn extras(&self, view: &Value) -> Map<String, Value> {
        let mut m = view.as_object().cloned().unwrap_or_default();
        m.remove("key");
        m
    }

    fn wake_inlock(&self, _e: &Value) -> bool {
        true
    }

    fn random_op(&self, rng: &mut Rng) -> Value {
        let n = 1 + rng.below(self.nodes.len());
        match rng.below(8) {
            0..=3 => {
                if !self.is_member(n) {
                    json!({"op": "insert", "n": n, "k": self.keys[rng.below(self.keys.len())]})
                } else {
                    json!({"op": "remove", "n": n})
                }
            }
            4 | 5 => {
                if self.is_member(n) {
                    json!({"op": "remove", "n": n})
                } else {
                    json!({"op": "peek_min"})
                }
            }
            _ => json!({"op": "peek_min"}),
        }
    }
}
