//! System under test: oneshot and oneshot-broadcast channels (borrowed and shared)

use crate::engine::Sut;
use crate::infra::*;
use futures_core::future::FusedFuture;
use futures_intrusive::channel::shared::{
    generic_oneshot_broadcast_channel, generic_oneshot_channel, ChannelReceiveFuture as SharedRecvFut,
    GenericOneshotBroadcastReceiver, GenericOneshotBroadcastSender, GenericOneshotReceiver, GenericOneshotSender,
    OneshotBroadcastVerifPeek, OneshotVerifPeek,
};
use futures_intrusive::channel::{
    ChannelReceiveFuture, ChannelSendError, CloseStatus, GenericOneshotBroadcastChannel, GenericOneshotChannel,
};
use futures_intrusive::verif::{NodeInfo, Snapshot};
use lock_api::RawMutex;
use serde_json::{json, Map, Value};
use std::future::Future;
use std::task::{Context, Poll};

pub trait OneFlavour: Sized + 'static {
    type Fut: Future<Output = Option<u32>> + FusedFuture;
    const SHARED: bool;
    const BROADCAST: bool;
    fn new() -> Self;
    fn send(&self, v: u32) -> Option<Result<(), ChannelSendError<u32>>>;
    fn close(&self) -> Option<CloseStatus>;
    fn receive(&self) -> Option<Self::Fut>;
    fn snapshot(&self) -> Option<Snapshot>;
    fn node(f: &Self::Fut) -> NodeInfo;
    fn drop_sender(&mut self) -> bool {
        false
    }
    fn clone_receiver(&mut self) -> bool {
        false
    }
    fn drop_receiver(&mut self) -> bool {
        false
    }
    fn handles(&self) -> (usize, usize) {
        (1, 1)
    }
    fn destroy(&mut self) -> bool;
}

macro_rules! borrowed {
    ($name:ident, $chan:ident, $bc:expr) => {
        pub struct $name<M: RawMutex + 'static> {
            raw: *mut $chan<M, u32>,
        }
        impl<M: RawMutex + 'static> $name<M> {
            fn ch(&self) -> Option<&'static $chan<M, u32>> {
                if self.raw.is_null() {
                    None
                } else {
                    Some(unsafe { &*self.raw })
                }
            }
        }
        impl<M: RawMutex + 'static> Drop for $name<M> {
            fn drop(&mut self) {
                self.destroy();
            }
        }
        impl<M: RawMutex + 'static> OneFlavour for $name<M> {
            type Fut = ChannelReceiveFuture<'static, M, u32>;
            const SHARED: bool = false;
            const BROADCAST: bool = $bc;
            fn new() -> Self {
                $name { raw: Box::into_raw(Box::new($chan::new())) }
            }
            fn send(&self, v: u32) -> Option<Result<(), ChannelSendError<u32>>> {
                Some(self.ch()?.send(v))
            }
            fn close(&self) -> Option<CloseStatus> {
                Some(self.ch()?.close())
            }
            fn receive(&self) -> Option<Self::Fut> {
                Some(self.ch()?.receive())
            }
            fn snapshot(&self) -> Option<Snapshot> {
                Some(self.ch()?.verif_snapshot())
            }
            fn node(f: &Self::Fut) -> NodeInfo {
                f.verif_node()
            }
            fn destroy(&mut self) -> bool {
                if self.raw.is_null() {
                    return false;
                }
                let p = self.raw;
                self.raw = std::ptr::null_mut();
                let _ = lib(|| unsafe { drop(Box::from_raw(p)) });
                true
            }
        }
    };
}
borrowed!(BorrowedOne, GenericOneshotChannel, false);
borrowed!(BorrowedBc, GenericOneshotBroadcastChannel, true);

pub struct SharedOne<M: RawMutex + 'static> {
    tx: Option<GenericOneshotSender<M, u32>>,
    rx: Option<GenericOneshotReceiver<M, u32>>,
    peek: Option<OneshotVerifPeek<M, u32>>,
}

impl<M: RawMutex + 'static> OneFlavour for SharedOne<M> {
    type Fut = SharedRecvFut<M, u32>;
    const SHARED: bool = true;
    const BROADCAST: bool = false;
    fn new() -> Self {
        let (tx, rx) = generic_oneshot_channel::<M, u32>();
        let peek = tx.verif_peek();
        SharedOne { tx: Some(tx), rx: Some(rx), peek: Some(peek) }
    }
    fn send(&self, v: u32) -> Option<Result<(), ChannelSendError<u32>>> {
        Some(self.tx.as_ref()?.send(v))
    }
    fn close(&self) -> Option<CloseStatus> {
        None
    }
    fn receive(&self) -> Option<Self::Fut> {
        Some(self.rx.as_ref()?.receive())
    }
    fn snapshot(&self) -> Option<Snapshot> {
        Some(self.peek.as_ref()?.verif_snapshot())
    }
    fn node(f: &Self::Fut) -> NodeInfo {
        f.verif_node()
    }
    fn drop_sender(&mut self) -> bool {
        self.tx.take().map(drop).is_some()
    }
    fn drop_receiver(&mut self) -> bool {
        self.rx.take().map(drop).is_some()
    }
    fn handles(&self) -> (usize, usize) {
        (self.tx.is_some() as usize, self.rx.is_some() as usize)
    }
    fn destroy(&mut self) -> bool {
        if self.peek.is_none() || self.tx.is_some() || self.rx.is_some() {
            return false;
        }
        let p = self.peek.take();
        let _ = lib(move || drop(p));
        true
    }
}

pub struct SharedBc<M: RawMutex + 'static> {
    tx: Option<GenericOneshotBroadcastSender<M, u32>>,
    rx: Vec<GenericOneshotBroadcastReceiver<M, u32>>,
    peek: Option<OneshotBroadcastVerifPeek<M, u32>>,
}

impl<M: RawMutex + 'static> OneFlavour for SharedBc<M> {
    type Fut = SharedRecvFut<M, u32>;
    const SHARED: bool = true;
    const BROADCAST: bool = true;
    fn new() -> Self {
        let (tx, r) = generic_oneshot_broadcast_channel::<M, u32>();
        let peek = tx.verif_peek();
        let mut rx = Vec::with_capacity(16);
        rx.push(r);
        SharedBc { tx: Some(tx), rx, peek: Some(peek) }
    }
    fn send(&self, v: u32) -> Option<Result<(), ChannelSendError<u32>>> {
        Some(self.tx.as_ref()?.send(v))
    }
    fn close(&self) -> Option<CloseStatus> {
        None
    }
    fn receive(&self) -> Option<Self::Fut> {
        Some(self.rx.first()?.receive())
    }
    fn snapshot(&self) -> Option<Snapshot> {
        Some(self.peek.as_ref()?.verif_snapshot())
    }
    fn node(f: &Self::Fut) -> NodeInfo {
        f.verif_node()
    }
    fn drop_sender(&mut self) -> bool {
        self.tx.take().map(drop).is_some()
    }
    fn clone_receiver(&mut self) -> bool {
        match self.rx.first() {
            Some(r) => {
                let c = r.clone();
                self.rx.push(c);
                true
            }
            None => false,
        }
    }
    fn drop_receiver(&mut self) -> bool {
        self.rx.pop().map(drop).is_some()
    }
    fn handles(&self) -> (usize, usize) {
        (self.tx.is_some() as usize, self.rx.len())
    }
    fn destroy(&mut self) -> bool {
        if self.peek.is_none() || self.tx.is_some() || !self.rx.is_empty() {
            return false;
        }
        let p = self.peek.take();
        let _ = lib(move || drop(p));
        true
    }
}

pub struct OneSut<F: OneFlavour> {
    ch: F,
    futs: Slots<F::Fut>,
    wk: Vec<u8>,
    maxv: u32,
    maxh: usize,
    dead: bool,
    last_view: std::cell::RefCell<Value>,
}

const ST: [&str; 3] = ["unreg", "reg", "notified"];

impl<F: OneFlavour> OneSut<F> {
    pub fn new(consts: &Value) -> Self {
        let k = consts["K"].as_u64().unwrap_or(3) as usize;
        let wk = consts["Wk"]
            .as_array()
            .map(|a| a.iter().map(|x| (x.as_u64().unwrap_or(1) - 1) as u8).collect())
            .unwrap_or(vec![0, 1]);
        OneSut {
            ch: F::new(),
            futs: Slots::new(k),
            wk,
            maxv: consts["MaxV"].as_u64().unwrap_or(2) as u32,
            maxh: consts["MaxH"].as_u64().unwrap_or(1) as usize,
            dead: false,
            last_view: std::cell::RefCell::new(Value::Null),
        }
    }
}

impl<F: OneFlavour> Drop for OneSut<F> {
    fn drop(&mut self) {
        self.futs.drop_live();
        self.ch.drop_sender();
        while self.ch.drop_receiver() {}
        self.ch.destroy();
    }
}

impl<F: OneFlavour> Sut for OneSut<F> {
    fn apply(&mut self, e: &Value) -> Option<Value> {
        if self.dead {
            return None;
        }
        let op = e["op"].as_str()?;
        Some(match op {
            "send" => {
                let v = e["v"].as_u64()? as u32;
                let ch = &self.ch;
                match lib(|| ch.send(v)) {
                    Ok(Some(Ok(()))) => json!({"op": op, "v": v, "res": "ok", "rv": 0}),
                    Ok(Some(Err(ChannelSendError(x)))) => json!({"op": op, "v": v, "res": "err", "rv": x}),
                    Ok(None) => return None,
                    Err(_) => json!({"op": op, "v": v, "res": "panic"}),
                }
            }
            "close" => {
                let ch = &self.ch;
                match lib(|| ch.close()) {
                    Ok(Some(CloseStatus::NewlyClosed)) => json!({"op": op, "res": "newly"}),
                    Ok(Some(CloseStatus::AlreadyClosed)) => json!({"op": op, "res": "already"}),
                    Ok(None) => return None,
                    Err(_) => json!({"op": op, "res": "panic"}),
                }
            }
            "create" => {
                let r = slot_of(e, "r");
                if r == 0 || r > self.futs.k() || self.futs.is_live(r) {
                    return None;
                }
                let ch = &self.ch;
                match lib(|| ch.receive()) {
                    Ok(Some(f)) => {
                        self.futs.put(r, f);
                        json!({"op": op, "r": r})
                    }
                    Ok(None) => return None,
                    Err(_) => json!({"op": op, "r": r, "res": "panic"}),
                }
            }
            "poll" | "poll_done" => {
                let r = slot_of(e, "r");
                let term = self.futs.get(r)?.is_terminated();
                if (op == "poll") == term {
                    return None;
                }
                let vr = variant_of(&e["w"]);
                let waker = waker(0, r, vr);
                let mut cx = Context::from_waker(&waker);
                let fut = self.futs.get_pin(r)?;
                let (res, v) = match lib(move || fut.poll(&mut cx)) {
                    Ok(Poll::Ready(Some(v))) => ("some", v),
                    Ok(Poll::Ready(None)) => ("none", 0),
                    Ok(Poll::Pending) => ("pending", 0),
                    Err(_) => ("panic", 0),
                };
                if op == "poll" {
                    json!({"op": op, "r": r, "w": variant_name(vr), "res": res, "v": v})
                } else {
                    json!({"op": op, "r": r, "res": res})
                }
            }
            "drop" => {
                let r = slot_of(e, "r");
                if !self.futs.is_live(r) {
                    return None;
                }
                match self.futs.drop_slot(r) {
                    Ok(()) => json!({"op": op, "r": r}),
                    Err(_) => json!({"op": op, "r": r, "res": "panic"}),
                }
            }
            "drop_sender" | "clone_receiver" | "drop_receiver" => {
                let ch = &mut self.ch;
                let r = lib(|| match op {
                    "drop_sender" => ch.drop_sender(),
                    "clone_receiver" => ch.clone_receiver(),
                    _ => ch.drop_receiver(),
                });
                match r {
                    Ok(true) => json!({"op": op}),
                    Ok(false) => return None,
                    Err(_) => json!({"op": op, "res": "panic"}),
                }
            }
            "destroy" => {
                if !self.futs.live_slots().is_empty() {
                    return None;
                }
                let _ = self.view();
                if !self.ch.destroy() {
                    return None;
                }
                self.dead = true;
                json!({"op": op})
            }
            _ => return None,
        })
    }

    fn view(&self) -> Value {
        if self.dead {
            let mut v = self.last_view.borrow().clone();
            v["dead"] = json!(true);
            v["hasval"] = json!(false);
            return v;
        }
        let snap = match self.ch.snapshot() {
            Some(s) => s,
            None => return json!({"dead": true}),
        };
        let k = self.futs.k();
        let mut table = Vec::new();
        let mut st = vec![json!("none"); k];
        let mut task = vec![json!("-"); k];
        let mut term = vec![json!(false); k];
        for s in self.futs.live_slots() {
            let fut = self.futs.get(s).unwrap();
            let n = F::node(fut);
            table.push((n.addr, s));
            st[s - 1] = json!(ST.get(n.state as usize).copied().unwrap_or("?"));
            task[s - 1] = json!(task_name(n.waker, 0, s));
            term[s - 1] = json!(fut.is_terminated());
        }
        let flag = |name: &str| snap.flags.iter().find(|(n, _)| *n == name).map_or(0, |(_, v)| *v);
        let qa = |name: &str| -> Vec<usize> {
            snap.queues
                .iter()
                .find(|(n, _)| *n == name)
                .map_or(vec![], |(_, v)| v.iter().map(|x| x.addr).collect())
        };
        let q = checked_queue(&qa("waiters"), &qa("waiters_rev"), &table);
        let ful = flag("is_fulfilled") != 0;
        let v = json!({"ful": ful, "hasval": flag("has_value") != 0, "st": st, "task": task, "q": q,
                       "term": term, "closed": ful, "dead": false});
        *self.last_view.borrow_mut() = v.clone();
        v
    }

    fn extras(&self, view: &Value) -> Map<String, Value> {
        let mut m = Map::new();
        let term: Vec<Value> = view["term"]
            .as_array()
            .map(|a| {
                a.iter()
                    .enumerate()
                    .filter(|(_, b)| b.as_bool() == Some(true))
                    .map(|(i, _)| json!(i + 1))
                    .collect()
            })
            .unwrap_or_default();
        m.insert("term".into(), Value::Array(term));
        m.insert("closed".into(), view["closed"].clone());
        m.insert("q".into(), view["q"].clone());
        m.insert("nst".into(), view["st"].clone());
        m
    }

    fn wake_inlock(&self, _e: &Value) -> bool {
        true
    }

    fn may_alloc(&self, e: &Value) -> bool {
        e["op"] == "destroy"
    }

    fn cleanup_ops(&self) -> Vec<Value> {
        if self.dead {
            return Vec::new();
        }
        let mut v = Vec::new();
        for s in self.futs.live_slots() {
            v.push(json!({"op": "drop", "r": s}));
        }
        let (hs, hr) = self.ch.handles();
        if F::SHARED {
            for _ in 0..hs {
                v.push(json!({"op": "drop_sender"}));
            }
            for _ in 0..hr {
                v.push(json!({"op": "drop_receiver"}));
            }
        }
        v.push(json!({"op": "destroy"}));
        v
    }

    fn random_op(&self, rng: &mut Rng) -> Value {
        let k = self.futs.k();
        let (hs, hr) = self.ch.handles();
        for _attempt in 0..400 {
            let r = 1 + rng.below(k);
            let w = variant_name(self.wk[rng.below(self.wk.len())]);
            match rng.below(20) {
                0..=3 => {
                    if !self.futs.is_live(r) && hr > 0 {
                        return json!({"op": "create", "r": r});
                    }
                }
                4..=9 => {
                    if let Some(f) = self.futs.get(r) {
                        if !f.is_terminated() {
                            return json!({"op": "poll", "r": r, "w": w});
                        } else if rng.below(8) == 0 {
                            return json!({"op": "poll_done", "r": r});
                        }
                    }
                }
                10 | 11 => {
                    if self.futs.is_live(r) {
                        return json!({"op": "drop", "r": r});
                    }
                }
                12 | 13 => {
                    if hs > 0 && rng.below(3) == 0 {
                        return json!({"op": "send", "v": 1 + rng.below(self.maxv as usize)});
                    }
                }
                14 => {
                    if !F::SHARED && rng.below(4) == 0 {
                        return json!({"op": "close"});
                    }
                }
                15 => {
                    if F::SHARED && hs > 0 && rng.below(6) == 0 {
                        return json!({"op": "drop_sender"});
                    }
                }
                16 | 17 => {
                    if F::SHARED && F::BROADCAST && hr > 0 && hr < self.maxh {
                        return json!({"op": "clone_receiver"});
                    }
                }
                18 => {
                    if F::SHARED && hr > 0 && rng.below(3) == 0 {
                        return json!({"op": "drop_receiver"});
                    }
                }
                _ => {}
            }
        }
        json!({"op": "idle"})
    }
}
