#!/bin/sh
# Confirms seeded changes in a scratch worktree: with the change the existing suite passes and the
# demonstration fails; without it the demonstration passes. usage: verify_seeded.sh <seeded-dir>...
W=/tmp/mutverify
if [ ! -d $W ]; then git -C /repo worktree add -q $W HEAD && cp -r /repo/target $W/target && cp /repo/Cargo.lock $W/; fi
cd $W || exit 2
for D in "$@"; do
  N=$(basename $D)
  git checkout -q -- . ; rm -f tests/mut_demo.rs
  git apply $D/patch.diff || { echo "$N: patch does not apply"; continue; }
  SUITE=$(cargo test --offline 2>&1 | grep -E "^test result" | awk '{p+=$4; f+=$6} END {print p" passed "f" failed"}')
  cp $D/mut_demo.rs tests/mut_demo.rs
  WITH=$(cargo test --offline --test mut_demo 2>&1 | grep -E "^test result" | head -1)
  git checkout -q -- .
  WITHOUT=$(cargo test --offline --test mut_demo 2>&1 | grep -E "^test result" | head -1)
  rm -f tests/mut_demo.rs
  echo "$N | suite with change: $SUITE | demo with change: $WITH | demo without: $WITHOUT"
done
