"""Which specification / configs / harness flavours / invariants decide which property."""

PRIMS = {
    "mutex": {
        "module": "Mutex",
        "obs_trace": "MutexObsTrace",
        "trace_consts": ["K", "Fair"],
        "trace_cfg_consts": ["K <- TraceK", "Fair <- TraceFair", 'Wk = {"A", "B"}'],
        "flavours": ["local", "pl", "vlock"],
        "tour_cfgs": {
            "quick": ["Mutex.tour-fair.cfg", "Mutex.tour-unfair.cfg"],
            "thorough": ["Mutex.tour-fair.cfg", "Mutex.tour-unfair.cfg"],
        },
        "model_cfgs": {
            "quick": ["Mutex.conc-fair.cfg"],
            "thorough": ["Mutex.conc-fair.cfg", "Mutex.conc-unfair.cfg", "Mutex.deep-fair.cfg"],
        },
        "random": {
            "quick": [{"consts": {"K": 6, "Fair": True, "Wk": [1, 2]}, "runs": 20, "len": 150, "flavours": ["local"]},
                      {"consts": {"K": 6, "Fair": False, "Wk": [1, 2]}, "runs": 20, "len": 150, "flavours": ["pl"]}],
            "thorough": [{"consts": {"K": 8, "Fair": True, "Wk": [1, 2]}, "runs": 200, "len": 300},
                         {"consts": {"K": 8, "Fair": False, "Wk": [1, 2]}, "runs": 200, "len": 300}],
        },
    },
    "semaphore": {
        "module": "Semaphore",
        "obs_trace": "SemObsTrace",
        "trace_consts": ["K", "Fair", "Init0", "MaxReq"],
        "trace_cfg_consts": ["K <- TraceK", "Fair <- TraceFair", "Init0 <- TraceInit0", "MaxReq <- TraceMaxReq",
                             'Wk = {"A", "B"}'],
        "flavours": ["local", "pl", "vlock", "shared"],
        "tour_cfgs": {
            "quick": ["Semaphore.swap-fair.cfg", "Semaphore.swap-unfair.cfg"],
            "thorough": ["Semaphore.swap-fair.cfg", "Semaphore.swap-unfair.cfg",
                         "Semaphore.tour-fair.cfg", "Semaphore.tour-unfair.cfg"],
        },
        "model_cfgs": {
            "quick": [],
            "thorough": ["Semaphore.deep-fair.cfg", "Semaphore.deep-unfair.cfg"],
        },
        "random": {
            "quick": [{"consts": {"K": 5, "Fair": True, "Wk": [1, 2], "Init0": 2, "MaxReq": 3, "Reqs": [0, 1, 2, 3], "MaxP": 4, "MaxRels": 4},
                       "runs": 20, "len": 200, "flavours": ["local", "shared"]},
                      {"consts": {"K": 5, "Fair": False, "Wk": [1, 2], "Init0": 1, "MaxReq": 3, "Reqs": [0, 1, 2, 3], "MaxP": 4, "MaxRels": 4},
                       "runs": 20, "len": 200, "flavours": ["pl", "shared"]}],
            "thorough": [{"consts": {"K": 8, "Fair": True, "Wk": [1, 2], "Init0": 2, "MaxReq": 4, "Reqs": [0, 1, 2, 3, 4], "MaxP": 6, "MaxRels": 5},
                          "runs": 200, "len": 400},
                         {"consts": {"K": 8, "Fair": False, "Wk": [1, 2], "Init0": 1, "MaxReq": 4, "Reqs": [0, 1, 2, 3, 4], "MaxP": 6, "MaxRels": 5},
                          "runs": 200, "len": 400}],
        },
    },
    "event": {
        "module": "Event",
        "obs_trace": "EventObsTrace",
        "trace_consts": ["K", "InitSet"],
        "trace_cfg_consts": ["K <- TraceK", "InitSet <- TraceInitSet", 'Wk = {"A", "B"}'],
        "flavours": ["local", "pl", "vlock"],
        "tour_cfgs": {
            "quick": ["Event.tour-unset.cfg", "Event.tour-set.cfg"],
            "thorough": ["Event.tour-unset.cfg", "Event.tour-set.cfg"],
        },
        "model_cfgs": {"quick": [], "thorough": ["Event.deep.cfg"]},
        "random": {
            "quick": [{"consts": {"K": 6, "Wk": [1, 2], "InitSet": False}, "runs": 20, "len": 200, "flavours": ["local", "pl"]}],
            "thorough": [{"consts": {"K": 10, "Wk": [1, 2], "InitSet": False}, "runs": 200, "len": 400},
                         {"consts": {"K": 10, "Wk": [1, 2], "InitSet": True}, "runs": 100, "len": 400}],
        },
    },
    "timer": {
        "module": "Timer",
        "obs_trace": "TimerObsTrace",
        "trace_consts": ["K"],
        "trace_cfg_consts": ["K <- TraceK", 'Wk = {"A", "B"}'],
        "flavours": ["local", "pl", "pl-local", "vlock"],
        "tour_cfgs": {
            "quick": ["Timer.tour.cfg", "Timer.swap.cfg"],
            "thorough": ["Timer.tour.cfg", "Timer.swap.cfg", "Timer.tour4.cfg"],
        },
        "model_cfgs": {"quick": [], "thorough": ["Timer.deep.cfg"]},
        "random": {
            "quick": [{"consts": {"K": 8, "Wk": [1, 2], "Deadlines": [1, 2, 3, 4, 5, 6], "Delays": [1, 2], "MaxNow": 8},
                       "runs": 20, "len": 250, "flavours": ["local", "pl"]}],
            "thorough": [{"consts": {"K": 12, "Wk": [1, 2], "Deadlines": [1, 2, 3, 4, 5, 6, 7, 8], "Delays": [1, 2, 3], "MaxNow": 10},
                          "runs": 300, "len": 400}],
        },
    },
}

ALL = list(PRIMS.keys())

PROPS = {
    "C01": {"prims": ALL, "invs": {p: ["C01"] for p in ALL}},
    "C02": {"prims": ["mutex"], "invs": {"mutex": ["C02"]}},
    "C03": {"prims": ["mutex"], "invs": {"mutex": ["C03", "OrdOK"]}},
    "C04": {"prims": ["mutex"], "invs": {"mutex": ["C04", "OrdOK"]}},
    "C05": {"prims": ["semaphore"], "invs": {"semaphore": ["C05"]}},
    "C06": {"prims": ["semaphore"], "invs": {"semaphore": ["C06", "OrdOK"]}},
    "C07": {"prims": ["semaphore"], "invs": {"semaphore": ["C07", "OrdOK"]}},
    "C14": {"prims": ["event"], "invs": {"event": ["C14"]}},
    "C15": {"prims": ["timer"], "invs": {"timer": ["C15"]}},
    "C17": {"prims": ALL, "invs": {p: ["C17"] for p in ALL}},
    "C18": {"prims": ALL, "invs": {p: ["C18"] for p in ALL}},
}
