#!/usr/bin/env python3
"""Anti-vacuity self test of the machinery (not a property check):
 (1) binding: a conforming execution recorded from the real code is accepted by the observer; the same
     execution with ONE recorded field corrupted is rejected, by the invariant one expects;
 (2) model level: configurations with a deliberately broken model (Semaphore without the D1a / D1b repairs)
     make TLC report the intended invariant.
Exit 0 if every expectation holds."""
import sys, os, json, copy, shutil, subprocess
sys.path.insert(0, os.path.dirname(os.path.abspath(__file__)))
import vlib
from registry import PRIMS

def record(prim, flavour, consts, seed=7, runs=3, length=120):
    out = os.path.join(WORK, "%s.ndjson" % prim)
    vlib.fih(["random", "--prim", prim, "--flavour", flavour, "--consts", json.dumps(consts), "--seed", str(seed),
              "--runs", str(runs), "--len", str(length), "--out", out])
    return vlib.read_runs(out)

def first(evs, pred):
    for i, e in enumerate(evs):
        if pred(e):
            return i
    return None

CASES = [
 # prim, flavour, consts, invariants to check, list of (name, predicate, mutate, expected invariant)
 ("mutex", "local", {"K": 4, "Fair": True, "Wk": [1, 2]}, ["C01", "C02", "C03", "C04", "C17", "C18"], [
   ("is_locked() reported wrongly after a step", lambda e: "pub" in e and e["op"] == "poll",
        lambda e: e["pub"].update(is_locked=not e["pub"]["is_locked"]), "C02"),
   ("a delivered wake-up removed from the log", lambda e: e["op"] == "drop_guard" and e["taken"],
        lambda e: e.update(taken=[]), None),   # the wake event that follows then has no source: rejected as malformed or C03
   ("terminated set misses a completed future", lambda e: e["op"] == "poll" and e.get("res") == "ready",
        lambda e: e.update(term=[]), "C17"),
   ("an allocation inside a call", lambda e: e["op"] == "poll", lambda e: e.update(alloc=1), "C18"),
   ("a queue entry that is no live future", lambda e: e["op"] == "poll" and e.get("res") == "pending",
        lambda e: e.update(q=e["q"] + [0]), "C01"),
 ]),
 ("semaphore", "local", {"K": 4, "Fair": False, "Wk": [1, 2], "Init0": 2, "MaxReq": 3, "Reqs": [0, 1, 2, 3], "MaxP": 4, "MaxRels": 4},
  ["C01", "C05", "C06", "C07", "C17", "C18"], [
   ("permits() off by one", lambda e: e["op"] == "release", lambda e: e["pub"].update(permits=e["pub"]["permits"] + 1), "C05"),
   ("a wake-up of release() removed", lambda e: e["op"] in ("release", "drop_releaser") and e["wakes"],
        lambda e: e.update(wakes=[]), "C06"),
 ]),
 ("event", "local", {"K": 4, "Wk": [1, 2], "InitSet": False}, ["C01", "C14", "C17", "C18"], [
   ("a wait completes although the event was never set", lambda e: e["op"] == "poll" and e.get("res") == "pending",
        lambda e: e.update(res="ready"), "C14"),
   ("set() does not wake a waiter", lambda e: e["op"] == "set" and e["wakes"], lambda e: e.update(wakes=e["wakes"][1:]), "C14"),
 ]),
 ("timer", "local", {"K": 5, "Wk": [1, 2], "Deadlines": [1, 2, 3, 4], "Delays": [1, 2], "MaxNow": 6}, ["C01", "C15", "C17", "C18"], [
   ("a timer completes early", lambda e: e["op"] == "poll" and e.get("res") == "pending", lambda e: e.update(res="ready"), "C15"),
   ("next_expiration() wrong", lambda e: e["op"] == "next_exp" and e.get("res") == "some", lambda e: e.update(val=e["val"] + 1), "C15"),
 ]),
 ("mpmc", "local-array", {"NS": 3, "NR": 3, "Cap": 2, "Wk": [1, 2], "MaxV": 60, "MaxH": 1, "Shared": False, "WithStream": True, "WithCancel": True},
  ["C01", "C08", "C09", "C10", "C11", "C17", "C18"], [
   ("a value received twice", lambda e: e["op"] in ("poll_recv", "try_recv") and e.get("res") == "some", "dup", "C08"),
   ("a wake-up of close() removed", lambda e: e["op"] == "close" and e["wakes"], lambda e: e.update(wakes=[]), "C10"),
   ("close() reports NewlyClosed twice", lambda e: e["op"] == "close" and e.get("res") == "already", lambda e: e.update(res="newly"), "C11"),
 ]),
 ("oneshot", "bc-pl", {"K": 4, "Wk": [1, 2], "Broadcast": True, "Shared": False, "MaxV": 3, "MaxH": 1}, ["C01", "C11", "C12", "C17", "C18"], [
   ("a second send accepted", lambda e: e["op"] == "send" and e.get("res") == "err", lambda e: e.update(res="ok", rv=0), "C12"),
 ]),
 ("state", "local", {"K": 4, "Wk": [1, 2], "Shared": False, "MaxV": 3, "MaxH": 1, "MaxSid": 1000}, ["C01", "C11", "C13", "C17", "C18"], [
   ("receive returns an id that is not newer than the one passed in", lambda e: e["op"] == "try_recv" and e.get("res") == "some",
        lambda e: e.update(sid=e["id"]), "C13"),
 ]),
 ("ring", "array", {"Cap": 3, "MaxV": 20}, ["C19", "C18"], [
   ("pop returns a wrong element", lambda e: e["op"] == "pop", lambda e: e.update(v=e["v"] + 1), "C19"),
   ("len() off by one", lambda e: e["op"] == "query", lambda e: e.update(len=e["len"] + 1), "C19"),
 ]),
 ("heap", "direct", {"N": 6, "Keys": [1, 2, 3]}, ["C20", "C18"], [
   ("a child link lost", lambda e: e["op"] == "insert" and any(e["child"]), lambda e: e.update(child=[0] * len(e["child"])), "C20"),
 ]),
 ("list", "direct", {"N": 6}, ["C20", "C18"], [
   ("remove of a member reports false", lambda e: e["op"] == "remove" and e.get("res") == "true", lambda e: e.update(res="false"), "C20"),
 ]),
]

def main():
    global WORK
    WORK = os.path.join(vlib.CACHE, "selftest")
    shutil.rmtree(WORK, ignore_errors=True)
    os.makedirs(WORK)
    vlib.build_harness()
    ok = True
    for prim, fl, consts, invs, muts in CASES:
        runs = record(prim, fl, consts)
        vs, n = vlib.validate_runs(prim, runs, invs, os.path.join(WORK, "obs"), prim + "-orig")
        print("%-10s original execution (%d runs, %d events): %s" % (prim, len(runs), sum(len(r[1]) for r in runs),
              "accepted" if not vs else "REJECTED %s" % vs))
        ok &= not vs
        for name, pred, mut, expect in muts:
            rr = copy.deepcopy(runs)
            done = False
            for (h, evs) in rr:
                i = first(evs, pred)
                if i is not None:
                    if mut == "dup":
                        evs.insert(i + 1, copy.deepcopy(evs[i]))
                    else:
                        mut(evs[i])
                    done = True
                    break
            if not done:
                print("%-10s   [skipped, no matching event] %s" % (prim, name))
                continue
            try:
                # several invariants may fail on a corrupted trace; ask for the intended one
                vs, _ = vlib.validate_runs(prim, rr, [expect] if expect else invs, os.path.join(WORK, "obs"), prim + "-mut")
                got = vs[0]["inv"] if vs else None
            except vlib.ToolError as e:
                got = "trace rejected as malformed"
            good = got is not None and (expect is None or got == expect)
            ok &= good
            print("%-10s   corrupted: %-62s -> %s%s" % (prim, name, got, "" if good else "   **UNEXPECTED (wanted %s)**" % expect))
    # (2) broken models
    for cfgtxt, want in [("FixA = FALSE", "C06"), ("FixB = FALSE", "C06")]:
        wd = os.path.join(WORK, "model-" + cfgtxt.replace(" ", ""))
        os.makedirs(wd)
        src = open(os.path.join(vlib.CFG, "Semaphore.swap-unfair.cfg")).read()
        cfg = os.path.join(wd, "m.cfg")
        open(cfg, "w").write(src.replace(cfgtxt.split(" = ")[0] + " = TRUE", cfgtxt).replace("ACTION_CONSTRAINT EdgeOut\n", ""))
        rc, out = vlib.tlc("Semaphore", cfg, wd, workers=4, timeout=600)
        txt = open(out, errors="replace").read()
        import re
        m = re.search(r"Invariant (\w+) is violated", txt)
        got = m.group(1) if m else None
        good = got == want
        ok &= good
        print("model      Semaphore with %s: TLC reports %s%s" % (cfgtxt, got, "" if good else "  **UNEXPECTED**"))
    print("SELFTEST", "OK" if ok else "FAILED")
    return 0 if ok else 1

if __name__ == "__main__":
    sys.exit(main())
