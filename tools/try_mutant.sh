#!/bin/sh
# usage: tools/try_mutant.sh <patch.diff> <property> [<property> ...]
# Applies a seeded change to /repo, runs the quick checks of the given properties, undoes the change.
set -u
PATCH="$1"; shift
cd /repo || exit 2
if ! git apply --check "$PATCH" 2>/dev/null; then echo "patch does not apply"; exit 2; fi
git apply "$PATCH"
# evidence describes the unchanged tree: keep it out of the way of the runs on the changed one
SAVE=$(mktemp -d /tmp/evidence-save.XXXXXX)
cp /verif/evidence/*.json "$SAVE"/ 2>/dev/null
trap 'git -C /repo checkout -- . ; cp "$SAVE"/*.json /verif/evidence/ 2>/dev/null; rm -rf "$SAVE"' EXIT INT TERM
cd /verif
for P in "$@"; do
  OUT=/tmp/mutant-$P.out
  timeout 1800 ./check "$P" --tier quick > "$OUT" 2>&1
  RC=$?
  echo "== $P rc=$RC $(grep -c '^VIOLATION' "$OUT") violation(s)"
  grep -E "^VIOLATION|^  invariant|TOOL-ERROR" "$OUT" | head -4
done
