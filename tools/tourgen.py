#!/usr/bin/env python3
"""Turn the edge dump of a TLC run (lines <<"EDGE", "<json>">>) into tours.

Every edge of the reachable state graph is covered by at least one path that
starts in the initial state.  Output (NDJSON):
  {"kind":"header", consts..., "states":n, "edges":m, "paths":p, "steps":k}
  {"kind":"state","id":i,"view":{...}}            (implementation-visible part)
  {"kind":"path","id":i,"steps":[[evt, dst_state_id], ...]}
"""
import sys, json, collections, re

def parse_line(line):
    # <<"EDGE", "....">>  with \" and \\ escapes inside
    i = line.index(', "') + 3
    j = line.rindex('">>')
    body = line[i:j]
    return json.loads(json.loads('"' + body + '"'))

def is_ghost(k):
    return k == "bad" or (len(k) > 1 and k[0] == "o" and k[1].isupper())

def main():
    src_file, out_file = sys.argv[1], sys.argv[2]
    maxlen = int(sys.argv[3]) if len(sys.argv) > 3 else 200
    consts = {}
    ids = {}
    views = []
    out = collections.defaultdict(list)   # sid -> list of [evt, did, covered]
    nedges = 0
    init = None
    with open(src_file) as f:
        for line in f:
            if line.startswith('<<"EDGE"'):
                e = parse_line(line)
                ks = json.dumps(e["src"], sort_keys=True)
                kd = json.dumps(e["dst"], sort_keys=True)
                for k, v in ((ks, e["src"]), (kd, e["dst"])):
                    if k not in ids:
                        ids[k] = len(views)
                        views.append(v)
                if init is None:
                    init = ids[ks]
                out[ids[ks]].append([e["evt"], ids[kd], False])
                nedges += 1
            elif line.startswith('<<"CONST"'):
                consts = parse_line(line)
    if init is None:
        print("no edges found", file=sys.stderr)
        sys.exit(2)
    n = len(views)
    # BFS tree from init
    parent = {init: None}
    dq = collections.deque([init])
    while dq:
        u = dq.popleft()
        for idx, (evt, v, _) in enumerate(out[u]):
            if v not in parent:
                parent[v] = (u, idx)
                dq.append(v)
    def path_from_init(v):
        p = []
        while parent[v] is not None:
            u, idx = parent[v]
            p.append((u, idx))
            v = u
        p.reverse()
        return p
    uncovered = {u: sum(1 for e in out[u] if not e[2]) for u in range(n)}
    remaining = nedges
    paths = []
    cur = init
    steps = []
    def take(u, idx):
        nonlocal remaining
        e = out[u][idx]
        if not e[2]:
            e[2] = True
            uncovered[u] -= 1
            remaining -= 1
        steps.append([e[0], e[1]])
        return e[1]
    def nearest_uncovered(start, budget):
        # bounded BFS over all edges to the nearest node with an uncovered out-edge
        if uncovered[start] > 0:
            return []
        prev = {start: None}
        dq = collections.deque([start])
        while dq and budget > 0:
            u = dq.popleft()
            budget -= 1
            for idx, (evt, v, _) in enumerate(out[u]):
                if v not in prev:
                    prev[v] = (u, idx)
                    if uncovered[v] > 0:
                        p = []
                        while prev[v] is not None:
                            pu, pidx = prev[v]
                            p.append((pu, pidx))
                            v = pu
                        p.reverse()
                        return p
                    dq.append(v)
        return None
    # states in BFS order from init; new paths start at the first one that still has an uncovered out-edge
    bfs_order = [init]
    seen = {init}
    dq = collections.deque([init])
    while dq:
        u = dq.popleft()
        for (evt, v, _) in out[u]:
            if v not in seen:
                seen.add(v)
                bfs_order.append(v)
                dq.append(v)
    ptr = 0
    while remaining > 0:
        while ptr < len(bfs_order) and uncovered[bfs_order[ptr]] == 0:
            ptr += 1
        if ptr >= len(bfs_order):
            break
        if steps:
            paths.append(steps)
            steps = []
        cur = init
        for (u, idx) in path_from_init(bfs_order[ptr]):
            cur = take(u, idx)
        while len(steps) < maxlen:
            if uncovered[cur] == 0:
                hop = nearest_uncovered(cur, 64)
                if hop is None:
                    break
                for (u, idx) in hop:
                    cur = take(u, idx)
            # follow an uncovered edge, preferring successors that still have uncovered edges
            best = None
            for idx, e in enumerate(out[cur]):
                if not e[2]:
                    if best is None or (uncovered[e[1]] > 0 and uncovered[out[cur][best][1]] == 0):
                        best = idx
            if best is None:
                break
            cur = take(cur, best)
    if steps:
        paths.append(steps)
    nsteps = sum(len(p) for p in paths)
    with open(out_file, "w") as f:
        hdr = {"kind": "header", "consts": consts, "states": n, "edges": nedges,
               "edges_covered": nedges - remaining, "paths": len(paths), "steps": nsteps, "init": init}
        f.write(json.dumps(hdr) + "\n")
        for i, v in enumerate(views):
            vis = {k: x for k, x in v.items() if not is_ghost(k)}
            f.write(json.dumps({"kind": "state", "id": i, "view": vis}, separators=(",", ":")) + "\n")
        for i, p in enumerate(paths):
            f.write(json.dumps({"kind": "path", "id": i, "steps": p}, separators=(",", ":")) + "\n")
    print(json.dumps(hdr))

if __name__ == "__main__":
    main()
