#!/usr/bin/env python3
"""Writes /verif/MANIFEST.json (one source for the per-property texts)."""
import json, os
ROOT = os.path.dirname(os.path.dirname(os.path.abspath(__file__)))
TECH = "TLA+ spec model-checked with TLC; every edge of the model's state graph replayed on the real code; recorded executions (drifting paths, random and mass / boundary histories, shuttle-scheduled multi-threaded runs logged per critical section) validated by TLC against the client-level observer spec, with TLC choosing the linearization point of calls that span several critical sections"
P = {
 "C01": ("Mutex, Semaphore, Event, Timer, Mpmc, Oneshot, StateBroadcast (+ *Obs, *ObsTrace)",
         "QueueOK holds in every reachable model state of all seven primitive specs; every edge of the tour configs is replayed on all lock/ownership flavours with the hook-exported wait queue (mapped from node addresses of quarantined, never re-used memory) compared after each step; any panic outside poll-after-completion, any queue entry that is not a live waiting future, any duplicate or inconsistent back-link is reported by the observer invariant C01 on the recorded execution.",
         "§5 C01"),
 "C02": ("Mutex.tla / MutexObs.tla", "At most one guard, completion only while no guard is alive and is_locked() == guard alive are invariants of the model (sequential and all-schedules configs) and are re-evaluated by TLC on every execution recorded from the code (public is_locked() is called after every step).", "§5 C02"),
 "C03": ("Mutex.tla / MutexObs.tla", "The no-lost-wake-up invariant C03 (fair: the head of the arrival order; woken = through the latest waker since the latest poll; taken-but-undelivered wakes count) holds in every state of the model including the configs where wake delivery is an independent action (all schedules), and on every recorded execution.", "§5 C03"),
 "C04": ("Mutex.tla / MutexObs.tla", "FIFO step-property C04 over the ghost arrival order, fair configs; code bound by edge tours + observer validation of random long histories.", "§5 C04"),
 "C05": ("Semaphore.tla / SemObs.tla", "Permit ledger (initial + released - acquired + returned) equals permits() after every step; completions only with enough permits; releaser amounts returned exactly once; borrowed and shared flavours replay the same tours.", "§5 C05"),
 "C06": ("Semaphore.tla / SemObs.tla", "Invariant C06 (nobody holds an unconsumed wake-up => the longest-waiting request does not fit), arrival order re-ordered on unfair re-queue as the property says. Found D1a/D1b on the pinned tree (fixed in /repo, see known_findings.json); regress histories are executed on the code on every run.", "§5 C06"),
 "C07": ("Semaphore.tla / SemObs.tla", "Fair-mode FIFO step property incl. zero-permit requests; cancellations at every queue position are edges of the tour graph.", "§5 C07"),
 "C08": ("Mpmc.tla / MpmcObs.tla", "Exactly-once accounting of uniquely tagged, drop-logging payloads (oIn ledger: every id is handed in once and leaves once: received, handed back, or dropped with future/buffer/channel); capacities 0,1,2; borrowed, shared, array-, fixed- and growing-heap backed channels, streams, cancel().", "§5 C08"),
 "C09": ("Mpmc.tla / MpmcObs.tla", "Observer = abstract bounded FIFO over the order in which sends took effect; receive returns the head; a send completes only when stored (position <= capacity) or taken; rendezvous for capacity 0.", "§5 C09"),
 "C10": ("Mpmc.tla / MpmcObs.tla", "Invariant C10 (value available and receivers pending => one holds a wake-up; accepted pending sender holds one; after close all do); notified-receiver drop forwards; model checked sequentially and with independent wake delivery (conc configs).", "§5 C10"),
 "C11": ("Mpmc.tla, Oneshot.tla, StateBroadcast.tla (+Obs)", "close() result, post-close send/receive results, and the hook-observed closed flag after every handle clone/drop compared with the observer's handle ledger for all shared flavours; once closed every pending future has been woken; last-handle drops as separately scheduled steps (SplitDrop configs, threaded runs with the handle counters as scheduling points). Found D3 on the pinned tree (fixed).", "§5 C11"),
 "C12": ("Oneshot.tla / OneshotObs.tla", "Single value accepted; single-consumer: exactly one Some; broadcast: every receive yields the value; pending receivers woken at send/close.", "§5 C12"),
 "C13": ("StateBroadcast.tla / StateObs.tla", "Observer does not assume how ids are numbered: ids strictly increase with publications, receive completes only with the latest state and only if newer than the id passed in; pending receivers woken by the next send/close.", "§5 C13"),
 "C14": ("Event.tla / EventObs.tla", "A wait completes iff the event is set at a poll or was set since the first poll (latched across reset); set wakes all pending through latest wakers; reset wakes nobody.", "§5 C14"),
 "C15": ("Timer.tla (+PairingHeapOps.tla) / TimerObs.tla", "Never early, nothing due missed, deadline order of wakes, exact next_expiration, saturating delay; the model contains the pairing heap link by link so every heap shape reachable with k timers is replayed and compared.", "§5 C15"),
 "C16": ("ThreadSafety.tla", "Ownership / thread-transfer model over the Send/Sync/Unpin facts rustc derives for every public type x witness (observed by harness `probe`); witnesses: four lock types (Send/Sync in all combinations), four payload types, two buffer types; TLC enumerates all programs of <= 5 moves/shares/clones/API calls over two threads. Found D2/D4/D6 (fixed) and D5 (known finding, printed as KNOWN-FINDING).", "§5 C16"),
 "C17": ("all seven primitive specs (+Obs)", "is_terminated() of every live future/stream is compared with the observer's completed-set after every replayed step of every tour; poll after completion must panic; stream items equal receive results, None forever after termination.", "§5 C17"),
 "C18": ("all primitive and container specs (+Obs)", "Counting global allocator armed only inside library calls; the recorded alloc count of every step must be 0 (exempt: push on the growing heap buffer; destruction of the primitive). TLC supplies the exhaustive set of histories and evaluates the constraint on the traces; it has nothing to say about the allocator itself.", "§5 C18"),
 "C19": ("RingBuf.tla / RingObs.tla", "ArrayBuf index arithmetic (wrap-around, capacity 0) modelled; all push/pop/query/drop sequences to a fixpoint for capacities 0..4; replayed on ArrayBuf, FixedHeapBuf, GrowingHeapBuf with drop-logging elements.", "§5 C19"),
 "C20": ("List.tla, Heap.tla (+PairingHeapOps.tla) / ListObs.tla, HeapObs.tla", "Link-level transcription of list and pairing heap; every edge replayed on the real structures comparing all links; observers check deque / min-queue semantics and mutual link consistency on recorded traces.", "§5 C20"),
}
checks = []
for pid in sorted(P):
    spec, text, ref = P[pid]
    checks.append({
        "property_id": pid,
        "quick_cmd": "./check %s --tier quick" % pid,
        "thorough_cmd": "./check %s --tier thorough" % pid,
        "evidence_file": "/verif/evidence/%s.json" % pid,
        "replay_cmd_template": "./check %s --replay {path}" % pid,
        "engine": "tla-conformance",
        "level_claimed": {"category": "model_checking", "text": text + " Specification: " + spec + ".", "design_ref": "DESIGN.md " + ref},
        "level_note": "Exhaustive inside the stated constants of each config (see evidence 'configs'); beyond them random histories validated against the observer. Trusted: TLC, the read-only verification hooks, rustc, sequentially consistent memory.",
        "technique": TECH if pid != "C16" else "TLA+ ownership/thread-transfer model checked with TLC over trait facts observed from rustc (probe binary)",
    })
m = {
 "version": 1,
 "setup_cmd": "./setup.sh",
 "hooks": {
   "guard": "--cfg futures_intrusive_verif",
   "enable": "harness/.cargo/config.toml sets rustflags = [\"--cfg\",\"futures_intrusive_verif\"]; the harness compiles /repo as a path dependency",
   "baseline_off_cmd": "cd /repo && cargo test --workspace --no-fail-fast --offline",
   "source_commits": ["b476fb7", "375763a", "9d35973", "2ab12bc"],
   "add_only": True,
 },
 "engines": [{"name": "tla-conformance", "path": "/verif/check",
              "serves_properties": sorted(P),
              "kind_free_text": "explicit TLA+ specifications (spec/*.tla) checked with TLC; spec->code: every edge of the state graph replayed on the real primitives by harness/fih; code->spec: recorded executions validated by TLC against the observer specs"}],
 "checks": checks,
 "not_applicable": [],
 "notes": "See DESIGN.md. known_findings.json lists repaired defects (fixed: D1a, D1b, D2, D3, D4, D6) and one recorded finding (C16, D5). The atomics hook 2ab12bc adds a cfg attribute line above three existing `use` lines (the lines themselves are unchanged).",
}
json.dump(m, open(os.path.join(ROOT, "MANIFEST.json"), "w"), indent=1)
print("wrote MANIFEST.json with", len(checks), "checks")
