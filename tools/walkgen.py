#!/usr/bin/env python3
"""Turn the edge lines printed by `tlc -simulate` (random walks of a deep configuration) into the tour file
format: each walk becomes a path from the initial state with the model's prediction for every step.

TLC prints the ACTION_CONSTRAINT line for every candidate successor it generates for the current state of a
walk (all successors of one action; with a monolithic Next: all successors), consecutively, and then moves to
the one it chose.  So the dump is a sequence of groups of edges with a common source; the edge that was taken
is the one whose destination is the source of the next group.  The last group of a walk has no successor group
and is dropped."""
import sys, json
from tourgen import parse_line, is_ghost

def main():
    src_file, out_file = sys.argv[1], sys.argv[2]
    consts = {}
    ids = {}
    views = []
    groups = []      # [(src_id, [(evt, dst_id), ...])]
    init_id = None
    with open(src_file) as f:
        for line in f:
            if line.startswith('<<"EDGE"'):
                e = parse_line(line)
                ks = json.dumps(e["src"], sort_keys=True)
                kd = json.dumps(e["dst"], sort_keys=True)
                for k, v in ((ks, e["src"]), (kd, e["dst"])):
                    if k not in ids:
                        ids[k] = len(views)
                        views.append(v)
                if init_id is None:
                    init_id = ids[ks]
                if groups and groups[-1][0] == ids[ks] and not (len(groups[-1][1]) == 1 and groups[-1][1][0][1] == ids[ks] and False):
                    groups[-1][1].append((e["evt"], ids[kd]))
                else:
                    groups.append((ids[ks], [(e["evt"], ids[kd])]))
            elif line.startswith('<<"CONST"'):
                consts = parse_line(line)
    if init_id is None:
        print("no edges found", file=sys.stderr)
        sys.exit(2)
    # a group whose source equals the source of the previous group cannot be told apart from it when a
    # self-loop was taken; the merge above treats them as one group (harmless: the walk just gets shorter)
    paths = []
    cur = []
    dropped = 0
    for i, (src, edges) in enumerate(groups):
        if not cur and src != init_id:
            # the start of this walk was lost (previous walk boundary was ambiguous): skip until the next init
            dropped += 1
            continue
        nxt = groups[i + 1][0] if i + 1 < len(groups) else None
        choice = None
        for (evt, dst) in edges:
            if dst == nxt:
                choice = (evt, dst)
                break
        if choice is None:
            # end of this walk (the next group starts a new walk in the initial state, or EOF)
            if cur:
                paths.append(cur)
            cur = []
            continue
        cur.append([choice[0], choice[1]])
    if cur:
        paths.append(cur)
    n = sum(len(p) for p in paths)
    with open(out_file, "w") as f:
        hdr = {"kind": "header", "consts": consts, "states": len(views), "edges": n, "edges_covered": n,
               "paths": len(paths), "steps": n, "init": init_id, "walks": True, "groups_dropped": dropped}
        f.write(json.dumps(hdr) + "\n")
        for i, v in enumerate(views):
            vis = {k: x for k, x in v.items() if not is_ghost(k)}
            f.write(json.dumps({"kind": "state", "id": i, "view": vis}, separators=(",", ":")) + "\n")
        for i, p in enumerate(paths):
            f.write(json.dumps({"kind": "path", "id": i, "steps": p}, separators=(",", ":")) + "\n")
    print(json.dumps(hdr))

if __name__ == "__main__":
    main()
