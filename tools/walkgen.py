#!/usr/bin/env python3
"""Turn the edge lines printed by `tlc -simulate` (random walks of a deep configuration) into the tour file
format: each walk becomes a path from the initial state with the model's prediction for every step."""
import sys, json
from tourgen import parse_line, is_ghost

def main():
    src_file, out_file = sys.argv[1], sys.argv[2]
    consts = {}
    ids = {}
    views = []
    paths = []
    cur = []
    init_key = None
    n = 0
    with open(src_file) as f:
        for line in f:
            if line.startswith('<<"EDGE"'):
                e = parse_line(line)
                ks = json.dumps(e["src"], sort_keys=True)
                kd = json.dumps(e["dst"], sort_keys=True)
                if init_key is None:
                    init_key = ks
                for k, v in ((ks, e["src"]), (kd, e["dst"])):
                    if k not in ids:
                        ids[k] = len(views)
                        views.append(v)
                if ks == init_key and cur:
                    paths.append(cur)
                    cur = []
                cur.append([e["evt"], ids[kd]])
                n += 1
            elif line.startswith('<<"CONST"'):
                consts = parse_line(line)
    if cur:
        paths.append(cur)
    if init_key is None:
        print("no edges found", file=sys.stderr)
        sys.exit(2)
    with open(out_file, "w") as f:
        hdr = {"kind": "header", "consts": consts, "states": len(views), "edges": n, "edges_covered": n,
               "paths": len(paths), "steps": n, "init": ids[init_key], "walks": True}
        f.write(json.dumps(hdr) + "\n")
        for i, v in enumerate(views):
            vis = {k: x for k, x in v.items() if not is_ghost(k)}
            f.write(json.dumps({"kind": "state", "id": i, "view": vis}, separators=(",", ":")) + "\n")
        for i, p in enumerate(paths):
            f.write(json.dumps({"kind": "path", "id": i, "steps": p}, separators=(",", ":")) + "\n")
    print(json.dumps(hdr))

if __name__ == "__main__":
    main()
