"""Driver library for /verif/check (see check's docstring)."""
import sys, os, json, subprocess, time, re, glob, shutil, concurrent.futures as cf

ROOT = os.path.dirname(os.path.dirname(os.path.abspath(__file__)))
SPEC = os.path.join(ROOT, "spec")
CFG = os.path.join(SPEC, "cfg")
HARNESS = os.path.join(ROOT, "harness")
FIH = os.path.join(HARNESS, "target", "debug", "fih")
CACHE = os.path.join(ROOT, "cache")
REPLAYS = os.path.join(ROOT, "replays")
EVID = os.path.join(ROOT, "evidence")
KNOWN = os.path.join(ROOT, "known_findings.json")

from registry import PRIMS, PROPS  # noqa: E402


class ToolError(Exception):
    pass


class CrashError(Exception):
    """The code under test crashed the harness process (signal)."""
    def __init__(self, args, rc):
        Exception.__init__(self, "fih %s died with signal %d" % (" ".join(args), -rc))
        self.fih_args = args
        self.rc = rc


def log(*a):
    print("[check]", *a, file=sys.stderr, flush=True)


# ----------------------------------------------------------------------- TLC

def tlc(module, cfg, workdir, workers=1, env_extra=None, timeout=3600, trace_mode=False, extra=None):
    """Runs TLC; returns (returncode, output_path)."""
    os.makedirs(workdir, exist_ok=True)
    out = os.path.join(workdir, "tlc.out")
    md = os.path.join(workdir, "md")
    shutil.rmtree(md, ignore_errors=True)
    env = dict(os.environ)
    if trace_mode:
        env["JAVA_TOOL_OPTIONS"] = "-Xss1g -Dtlc2.tool.queue.IStateQueue=StateDeque"
    else:
        env["JAVA_TOOL_OPTIONS"] = "-Xss256m"
    if env_extra:
        env.update(env_extra)
    cmd = ["timeout", str(timeout), "tlc", "-workers", str(workers), "-metadir", md, "-cleanup",
           "-noGenerateSpecTE", "-config", cfg, os.path.join(SPEC, module + ".tla")]
    if extra:
        cmd[3:3] = extra
    with open(out, "w") as f:
        p = subprocess.run(cmd, stdout=f, stderr=subprocess.STDOUT, env=env, cwd=workdir)
    shutil.rmtree(md, ignore_errors=True)
    return p.returncode, out


STAT_RE = re.compile(r"^(\d+) states generated, (\d+) distinct states found")


def tlc_stats(out):
    gen = dist = None
    err = None
    with open(out, errors="replace") as f:
        for line in f:
            if line.startswith('<<"EDGE"'):
                continue
            m = STAT_RE.match(line)
            if m:
                gen, dist = int(m.group(1)), int(m.group(2))
            if line.startswith("Error:") and err is None:
                err = line.strip()
    return gen, dist, err


def model_check(module, cfgname, workdir, workers, timeout=3600, simulate=None):
    cfg = os.path.join(CFG, cfgname)
    t0 = time.time()
    extra = None
    if simulate:
        extra = ["-simulate", "num=%d" % simulate["num"], "-depth", str(simulate["depth"]), "-seed", str(simulate["seed"])]
    rc, out = tlc(module, cfg, workdir, workers=workers, timeout=timeout, extra=extra)
    if simulate:
        n = int(subprocess.run("grep -c '^<<\"EDGE\"' %s" % out, shell=True, capture_output=True, text=True).stdout.strip() or 0)
        txt = subprocess.run("grep -v '^<<\"EDGE\"' %s | tail -30" % out, shell=True, capture_output=True, text=True).stdout
        if rc == 124 or "Error:" in txt or n == 0:
            raise ToolError("TLC simulation failed for %s:\n%s" % (cfgname, txt))
        return {"cfg": cfgname, "module": module, "states": n, "transitions": n, "wall_s": round(time.time() - t0, 1),
                "out": out, "walks": simulate["num"]}
    gen, dist, err = tlc_stats(out)
    if rc == 124:
        raise ToolError("TLC timed out on %s (%s)" % (cfgname, out))
    if err or gen is None:
        tail = subprocess.run("grep -v '^<<\"EDGE\"' %s | tail -60" % out, shell=True, capture_output=True, text=True).stdout
        raise ToolError("TLC reports an error in the specification itself for %s: %s\n%s" % (cfgname, err, tail))
    return {"cfg": cfgname, "module": module, "states": dist, "transitions": gen, "wall_s": round(time.time() - t0, 1),
            "out": out}


# ------------------------------------------------------------------- harness

def build_harness():
    t0 = time.time()
    p = subprocess.run(["cargo", "build", "--offline"], cwd=HARNESS, capture_output=True, text=True)
    if p.returncode != 0:
        raise ToolError("harness build failed:\n" + p.stderr[-4000:])
    log("harness built in %.1fs" % (time.time() - t0))


def fih(args, timeout=3600):
    p = subprocess.run([FIH] + args, capture_output=True, text=True, timeout=timeout)
    if p.returncode < 0:
        raise CrashError(args, p.returncode)
    if p.returncode != 0:
        raise ToolError("fih %s failed (rc %d):\n%s\n%s" % (" ".join(args), p.returncode, p.stdout[-2000:], p.stderr[-4000:]))
    line = p.stdout.strip().splitlines()[-1]
    return json.loads(line)


# ------------------------------------------------------- observer validation

def read_runs(path):
    """Splits a trace file into runs: [(header, [events])]."""
    runs = []
    with open(path) as f:
        for line in f:
            line = line.strip()
            if not line:
                continue
            e = json.loads(line)
            if e.get("op") == "run_start":
                runs.append((e, []))
            else:
                if not runs:
                    raise ToolError("trace %s does not start with a run_start header" % path)
                runs[-1][1].append(e)
    return runs


def consts_key(prim, header):
    keys = PRIMS[prim]["trace_consts"]
    return json.dumps({k: header["consts"].get(k) for k in keys}, sort_keys=True)


MAX_VIOLATIONS = 3


def validate_runs(prim, runs, invs, workdir, label, is_known=None):
    """Validates runs (all with the same trace constants) in observer mode.
    Returns list of violations: {inv, run_index, event_index}. Iterates, removing
    a violating run, until the remaining runs are accepted."""
    info = PRIMS[prim]
    violations = []
    # runs in which some call went through several critical sections (events sharing `cid`) are
    # validated one by one in linearization mode: TLC chooses where each such call takes effect
    multi = [ri for ri in range(len(runs)) if any("cid" in e for e in runs[ri][1])]
    remaining = [ri for ri in range(len(runs)) if ri not in set(multi)]
    it = 0
    nvalidated = 0
    if multi:
        # a linearization has to satisfy the whole observer, not only this property's part of it; the run
        # counts against this property iff no choice satisfies everything, but some choice satisfies
        # everything except this property's invariants
        all_invs = sorted({i for pr in PROPS.values() if prim in pr["prims"] for i in pr["invs"][prim]})
        others = [i for i in all_invs if i not in invs]
        def nd_try(ri, nd_invs, tag):
            wd = os.path.join(workdir, "%s-nd%s-%d" % (label, tag, ri))
            os.makedirs(wd, exist_ok=True)
            tr = os.path.join(wd, "trace.ndjson")
            h, evs = runs[ri]
            with open(tr, "w") as f:
                f.write(json.dumps(h) + "\n")
                for e in evs:
                    f.write(json.dumps(e) + "\n")
            cfg = os.path.join(wd, "trace.cfg")
            with open(cfg, "w") as f:
                f.write("SPECIFICATION TraceSpec\nCONSTANTS\n")
                for c in info["trace_cfg_consts"]:
                    if not c.startswith("NDInvs"):
                        f.write("  %s\n" % c)
                f.write("  NDInvs = {%s}\n" % ", ".join('"%s"' % i for i in nd_invs))
                f.write("POSTCONDITION TraceAccepted\nCHECK_DEADLOCK FALSE\nALIAS TraceAlias\n")
            rc, out = tlc(info["obs_trace"], cfg, wd, workers=1, env_extra={"TRACE": tr}, trace_mode=True, timeout=900)
            txt = open(out, errors="replace").read()
            m = re.search(r'"TRACE-REJECTED at line",\s*(\d+)', txt)
            if m:
                return int(m.group(1)) - 1
            if "Error:" in txt or rc != 0:
                tail = "\n".join(txt.splitlines()[-40:])
                raise ToolError("trace validation (linearization mode) failed to run (%s):\n%s" % (out, tail))
            return None
        def nd_one(ri):
            evn = nd_try(ri, all_invs, "")
            if evn is None:
                return ri, None
            # every linearization breaks this property's own invariants
            if nd_try(ri, invs, "p") is not None:
                return ri, evn
            # every linearization that keeps all the other invariants breaks this property's
            if nd_try(ri, others, "x") is None:
                return ri, evn
            return ri, -1     # rejected, but not on account of this property's invariants
        import concurrent.futures as _cf
        for k in range(0, len(multi), 6):
            with _cf.ThreadPoolExecutor(max_workers=6) as ex:
                res = list(ex.map(nd_one, multi[k:k + 6]))
            for ri, evn in res:
                if evn is None:
                    nvalidated += 1
                elif evn < 0:
                    pass
                else:
                    violations.append({"inv": "+".join(invs) + " (under every choice of the critical section at which multi-section calls take effect)",
                                       "run": ri, "event": evn})
            unknown = [x for x in violations if not (is_known and is_known(x))]
            if len(unknown) >= MAX_VIOLATIONS:
                return violations[:max(MAX_VIOLATIONS, len(violations) - len(unknown) + MAX_VIOLATIONS)], nvalidated
    while remaining:
        it += 1
        wd = os.path.join(workdir, "%s-%d" % (label, it))
        os.makedirs(wd, exist_ok=True)
        tr = os.path.join(wd, "trace.ndjson")
        starts = []
        n = 0
        with open(tr, "w") as f:
            for ri in remaining:
                h, evs = runs[ri]
                starts.append((n + 1, ri))
                f.write(json.dumps(h) + "\n")
                n += 1
                for e in evs:
                    f.write(json.dumps(e) + "\n")
                    n += 1
        cfg = os.path.join(wd, "trace.cfg")
        with open(cfg, "w") as f:
            f.write("SPECIFICATION TraceSpec\nCONSTANTS\n")
            for c in info["trace_cfg_consts"]:
                f.write("  %s\n" % c)
            f.write("INVARIANTS %s\n" % " ".join(invs))
            f.write("POSTCONDITION TraceAccepted\nCHECK_DEADLOCK FALSE\nALIAS TraceAlias\n")
        rc, out = tlc(info["obs_trace"], cfg, wd, workers=1, env_extra={"TRACE": tr}, trace_mode=True, timeout=1800)
        txt = open(out, errors="replace").read()
        m = re.search(r"Error: Invariant (\w+) is violated", txt)
        if m:
            inv = m.group(1)
            ls = re.findall(r"^/\\ l = (\d+)", txt, re.M)
            if not ls:
                raise ToolError("cannot locate violation position in %s" % out)
            pos = int(ls[-1]) - 1  # line number (1-based) of the event whose processing broke the invariant
            run = None
            for (s, ri) in starts:
                if s <= pos:
                    run = (s, ri)
            s, ri = run
            v = {"inv": inv, "run": ri, "event": pos - s}  # events[0..event-1] incl. violating one
            violations.append(v)
            remaining.remove(ri)
            unknown = [x for x in violations if not (is_known and is_known(x))]
            if len(unknown) >= MAX_VIOLATIONS:
                break
            continue
        if "TRACE-REJECTED" in txt or "Error:" in txt or rc != 0:
            tail = "\n".join(txt.splitlines()[-40:])
            raise ToolError("trace validation failed to run (%s):\n%s" % (out, tail))
        nvalidated += len(remaining)
        break
    return violations, nvalidated


# ---------------------------------------------------------- known findings

def load_known():
    if not os.path.exists(KNOWN):
        return []
    return json.load(open(KNOWN))


def match_known(prop, prim, header, events):
    """A violation is a known finding if an entry with status 'known' for this
    property matches the recorded history (op/res pattern at its end)."""
    for k in load_known():
        if k.get("status") != "known" or k.get("property") != prop or k.get("primitive") != prim:
            continue
        pat = k.get("signature", {}).get("ops_suffix")
        if not pat:
            continue
        cs = k.get("signature", {}).get("consts", {})
        if any(header.get("consts", {}).get(a) != b for a, b in cs.items()):
            continue
        tail = [(e.get("op"), e.get("res")) for e in events if e.get("op") != "wake"][-len(pat):]
        if [tuple(x) for x in pat] == tail:
            return k
    return None


# ------------------------------------------------------------------- a check

def op_summary(events):
    out = []
    for e in events:
        s = e.get("op", "?")
        for k in ("f", "s", "r", "n", "a", "w", "v", "id", "t", "d", "i", "val"):
            if k in e:
                s += " %s=%s" % (k, json.dumps(e[k]))
        if "res" in e:
            s += " -> %s" % json.dumps(e["res"])
        for k in ("wakes", "taken"):
            if e.get(k):
                s += " %s=%s" % (k, json.dumps(e[k]))
        out.append(s)
    return out


def run_check(prop_id, tier, seed):
    t0 = time.time()
    prop = PROPS[prop_id]
    os.makedirs(CACHE, exist_ok=True)
    os.makedirs(REPLAYS, exist_ok=True)
    os.makedirs(EVID, exist_ok=True)
    work = os.path.join(CACHE, "%s-%s" % (prop_id, tier))
    shutil.rmtree(work, ignore_errors=True)
    os.makedirs(work)
    ncpu = os.cpu_count() or 4

    ev = {"states": 0, "transitions": 0, "traces_validated_against_impl": 0, "samples": [], "edges": 0,
          "edges_covered": 0, "configs": [], "flavours": {}, "drift": False, "exhaustive": True,
          "paths_replayed": 0, "steps_replayed": 0, "random_runs": 0, "actions": {}, "drift_details": []}
    violations = []
    known_lines = []

    # ---- phase 1: TLC on every config of the tier (model level)
    jobs = []
    walk_specs = {}
    cfg_flavours = {}
    for prim in prop["prims"]:
        info = PRIMS[prim]
        for c in info["tour_cfgs"][tier]:
            if isinstance(c, dict):
                cfg_flavours[c["cfg"]] = c["flavours"]
                c = c["cfg"]
            jobs.append((prim, c, True))
        for c in info["model_cfgs"][tier]:
            jobs.append((prim, c, False))
        for w in info.get("walk_cfgs", {}).get(tier, []):
            walk_specs[w["cfg"]] = w
            if "flavours" in w:
                cfg_flavours[w["cfg"]] = w["flavours"]
            jobs.append((prim, w["cfg"], True))
    results = {}
    # tour configs need a single worker each (one line per edge); run several TLC processes side by side
    def run_job(j):
        prim, c, tour = j
        wd = os.path.join(work, "tlc-" + c.replace(".cfg", ""))
        w = 1 if tour else max(2, min(8, ncpu // 2))
        sim = None
        if c in walk_specs:
            sim = {"num": walk_specs[c]["num"], "depth": walk_specs[c]["depth"], "seed": seed}
        # the module is the first component of the config name (Mutex.conc-fair.cfg, MutexLive.fair.cfg, ...)
        return j, model_check(c.split(".")[0], c, wd, w, simulate=sim)
    tour_jobs = [j for j in jobs if j[2]]
    deep_jobs = [j for j in jobs if not j[2]]
    with cf.ThreadPoolExecutor(max_workers=max(1, ncpu // 2)) as ex:
        for j, r in ex.map(run_job, tour_jobs):
            results[j] = r
    with cf.ThreadPoolExecutor(max_workers=2) as ex:
        for j, r in ex.map(run_job, deep_jobs):
            results[j] = r
    for j, r in results.items():
        ev["states"] += r["states"]
        ev["transitions"] += r["transitions"]
        ev["configs"].append({k: r[k] for k in ("cfg", "module", "states", "transitions", "wall_s")} | {"tour": j[2]})
    log("TLC: %d configs, %d distinct states, %d transitions (%.1fs)" % (len(results), ev["states"], ev["transitions"], time.time() - t0))
    # ---- phase 1b: inductive invariants for unbounded parameters (Apalache), where a module offers one
    for prim in prop["prims"]:
        for a in PRIMS[prim].get("apalache", []):
            ta = time.time()
            for (init, inv, length) in a["steps"]:
                wd = os.path.join(work, "apalache-%s-%s" % (a["module"], init))
                os.makedirs(wd, exist_ok=True)
                cmd = ["timeout", "900", "apalache-mc", "check", "--out-dir=" + wd, "--cinit=" + a["cinit"], "--init=" + init,
                       "--inv=" + inv, "--length=%d" % length, os.path.join(SPEC, a["module"] + ".tla")]
                p = subprocess.run(cmd, capture_output=True, text=True, cwd=wd)
                if "EXITCODE: OK" not in p.stdout:
                    raise ToolError("Apalache does not confirm %s as inductive (%s, length %d):\n%s" % (inv, init, length, p.stdout[-3000:] + p.stderr[-1000:]))
            ev["configs"].append({"cfg": "%s: %s inductive for every value of the constants satisfying %s (Apalache: %s)" % (
                                      a["module"], a["steps"][-1][1], a["cinit"], ", ".join("%s/length %d" % (i, l) for (i, _, l) in a["steps"])),
                                  "module": a["module"], "states": 0, "transitions": 0, "wall_s": round(time.time() - ta, 1), "tour": False})
            log("Apalache: %s inductive (%s) in %.1fs" % (a["steps"][-1][1], a["module"], time.time() - ta))

    # ---- phase 2: build harness against /repo's working tree, generate tours, replay
    build_harness()
    crashes = []
    traces = {}   # (prim, constskey) -> list of (header, events, origin)
    def add_trace_file(prim, path, origin):
        for (h, evs) in read_runs(path):
            traces.setdefault((prim, consts_key(prim, h)), []).append((h, evs, origin))

    import threading
    ev_lock = threading.Lock()
    def replay_cfg(item):
        (prim, c, tour), r = item
        info = PRIMS[prim]
        wd = os.path.dirname(r["out"])
        tours = os.path.join(wd, "tours.ndjson")
        is_walk = c in walk_specs
        gen = [sys.executable, os.path.join(ROOT, "tools", "walkgen.py"), r["out"], tours] if is_walk else \
              [sys.executable, os.path.join(ROOT, "tools", "tourgen.py"), r["out"], tours, str(info.get("tour_len", 200))]
        p = subprocess.run(gen, capture_output=True, text=True)
        if p.returncode != 0:
            raise ToolError("tourgen failed for %s: %s" % (c, p.stderr[-2000:]))
        hdr = json.loads(p.stdout.strip().splitlines()[-1])
        os.remove(r["out"])  # edge dump no longer needed
        with ev_lock:
            if is_walk:
                ev["walk_steps"] = ev.get("walk_steps", 0) + hdr["steps"]
            else:
                ev["edges"] += hdr["edges"]
            cfgrec = next(x for x in ev["configs"] if x["cfg"] == c)
            cfgrec.update({"edges": hdr["edges"], "paths": hdr["paths"], "steps": hdr["steps"], "consts": hdr["consts"]})
        all_clean = True
        def rp(fl):
            od = os.path.join(wd, "rec-" + fl)
            try:
                return fl, fih(["replay", "--prim", prim, "--flavour", fl, "--tours", tours, "--outdir", od, "--record", "2"])
            except CrashError as ce:
                # the code under test crashed (e.g. SIGSEGV): attribute it to the path being replayed
                pid = None
                try:
                    pid = int(open(os.path.join(od, "progress.%s.%s" % (prim, fl))).read().strip())
                except Exception:
                    pass
                ops = []
                if pid is not None:
                    with open(tours) as f:
                        for line in f:
                            if line.startswith('{"kind":"path"'):
                                d = json.loads(line)
                                if d["id"] == pid:
                                    ops = [st[0] for st in d["steps"]]
                                    break
                with ev_lock:
                    crashes.append({"prim": prim, "flavour": fl, "cfg": c, "path": pid, "signal": -ce.rc, "ops": ops,
                                    "consts": hdr["consts"]})
                return fl, {"paths": 0, "steps": 0, "drift": [], "samples": [], "crashed": True}
        flavours = cfg_flavours.get(c, info["flavours"])
        with cf.ThreadPoolExecutor(max_workers=len(flavours)) as ex:
            outs = list(ex.map(rp, flavours))
        # action coverage from the tour file itself
        acts = {}
        with open(tours) as f:
            for line in f:
                if line.startswith('{"kind":"path"'):
                    for st in json.loads(line)["steps"]:
                        k = prim + "." + st[0]["op"]
                        acts[k] = acts.get(k, 0) + 1
        with ev_lock:
            for k, v in acts.items():
                ev["actions"][k] = ev["actions"].get(k, 0) + v
            for fl, s in outs:
                ev["paths_replayed"] += s["paths"]
                ev["steps_replayed"] += s["steps"]
                ev["flavours"].setdefault(prim, [])
                if fl not in ev["flavours"][prim]:
                    ev["flavours"][prim].append(fl)
                if s.get("crashed"):
                    all_clean = False
                    ev["drift"] = True
                    ev["exhaustive"] = False
                if s["drift"]:
                    all_clean = False
                    ev["drift"] = True
                    ev["exhaustive"] = False
                    for d in s["drift"][:25]:
                        add_trace_file(prim, d["trace"], "drift %s %s path %s step %s: %s" % (c, fl, d["path"], d["step"], d["why"]))
                    ev["drift_details"].append({"cfg": c, "flavour": fl, "paths_drifting": len(s["drift"]),
                                                "first": {k: s["drift"][0][k] for k in ("path", "step", "why")}})
                for smp in s["samples"]:
                    add_trace_file(prim, smp["trace"], "conforming %s %s path %s" % (c, fl, smp["path"]))
            if all_clean and not is_walk:
                ev["edges_covered"] += hdr["edges_covered"]
        log("replayed %s on %s: %d edges, %d paths, drift=%s" % (c, ",".join(flavours), hdr["edges"], hdr["paths"], not all_clean))

    tour_items = [it for it in sorted(results.items(), key=lambda x: x[0][1]) if it[0][2]]
    with cf.ThreadPoolExecutor(max_workers=4) as ex:
        list(ex.map(replay_cfg, tour_items))

    # ---- phase 3: random histories beyond the model bounds (code -> spec)
    for prim in prop["prims"]:
        info = PRIMS[prim]
        for i, rc in enumerate(info["random"][tier]):
            for fl in rc.get("flavours", info["flavours"]):
                out = os.path.join(work, "random-%s-%s-%d.ndjson" % (prim, fl, i))
                s = fih(["random", "--prim", prim, "--flavour", fl, "--consts", json.dumps(rc["consts"]),
                         "--seed", str(seed + 1000 * i), "--runs", str(rc["runs"]), "--len", str(rc["len"]), "--out", out])
                ev["random_runs"] += s["runs"]
                add_trace_file(prim, out, "random %s seed %d" % (fl, seed + 1000 * i))

    # ---- phase 3c: multi-threaded executions under controlled schedules (shuttle), recorded per critical section
    ev["concurrent_runs"] = 0
    ev["concurrent_aborted"] = 0
    for prim in prop["prims"]:
        info = PRIMS[prim]
        for i, cc in enumerate(info.get("conc", {}).get(tier, [])):
            out = os.path.join(work, "conc-%s-%d.ndjson" % (prim, i))
            args = ["--prim", prim, "--consts", json.dumps(cc["consts"]), "--seed", str(seed + 77 * i),
                    "--iters", str(cc["iters"]), "--out", out] + (["--pct"] if cc.get("pct") else [])
            p = subprocess.run([os.path.join(HARNESS, "target", "debug", "fihc")] + args, capture_output=True, text=True, timeout=1800)
            if p.returncode != 0:
                # the process died inside a run (marker left behind): the code under test crashed it
                try:
                    cur = json.load(open(out + ".cur"))
                except Exception:
                    raise ToolError("fihc failed: %s\n%s" % (p.stdout[-1000:], p.stderr[-3000:]))
                crashes.append({"prim": prim, "flavour": "slock-threads", "cfg": "thread schedule seed %s (%s)" % (cur["seed"], cur["schedule"]),
                                "path": cur["iteration"], "signal": -p.returncode if p.returncode < 0 else p.returncode,
                                "ops": [{"op": "threads", "fihc_args": args, "iteration": cur["iteration"]}], "consts": cur["consts"]})
                ev["concurrent_runs"] += cur["iteration"]
                log("threaded run %s seed %s crashed the process (rc %d) in iteration %d" % (prim, cur["seed"], p.returncode, cur["iteration"]))
            else:
                s = json.loads(p.stdout.strip().splitlines()[-1])
                ev["concurrent_runs"] += s["runs"]
                ev["concurrent_aborted"] += s["aborted"]
            add_trace_file(prim, out, "threads (shuttle %s) seed %d" % ("pct" if cc.get("pct") else "random", seed + 77 * i))

    # ---- phase 3b: regression histories (counterexamples found earlier), executed on the real code
    for prim in prop["prims"]:
        for path in sorted(glob.glob(os.path.join(ROOT, "regress", prim, "*.ndjson"))):
            hdr0 = json.loads(open(path).readline())
            for fl in hdr0.get("flavours", PRIMS[prim]["flavours"]):
                out = os.path.join(work, "regress-%s-%s-%s" % (prim, fl, os.path.basename(path)))
                try:
                    fih(["exec", "--prim", prim, "--flavour", fl, "--ops", path, "--out", out])
                except CrashError as ce:
                    # the code under test took the process down: C01's business, noted by the others
                    ops = [json.loads(l) for l in open(path).read().splitlines()[1:] if l.strip()]
                    crashes.append({"prim": prim, "flavour": fl, "cfg": "regress " + os.path.basename(path), "path": 0,
                                    "signal": -ce.rc if ce.rc < 0 else ce.rc, "ops": ops, "consts": hdr0.get("consts", {})})
                    log("regress history %s crashed the process on flavour %s (rc %d)" % (os.path.basename(path), fl, ce.rc))
                    continue
                add_trace_file(prim, out, "regress %s %s" % (os.path.basename(path), fl))

    # ---- phase 4: observer-mode validation of everything recorded from the real code
    nviol = 0
    for (prim, ck), runs in traces.items():
        invs = prop["invs"][prim]
        def is_known(v, runs=runs, prim=prim):
            h, evs, origin = runs[v["run"]]
            return match_known(prop_id, prim, h, evs[: v["event"]]) is not None
        if nviol >= MAX_VIOLATIONS:
            break
        vs, nval = validate_runs(prim, [(h, e) for (h, e, o) in runs], invs, os.path.join(work, "obs"),
                                 "%s-%d" % (prim, len(ev["samples"]) + ev["traces_validated_against_impl"]), is_known)
        ev["traces_validated_against_impl"] += nval
        for v in vs:
            h, evs, origin = runs[v["run"]]
            cut = evs[: v["event"]]
            kf = match_known(prop_id, prim, h, cut)
            if kf:
                known_lines.append("KNOWN-FINDING: property=%s %s" % (prop_id, kf["what"]))
                continue
            nviol += 1
            rp = os.path.join(REPLAYS, "%s-%d.ndjson" % (prop_id, nviol))
            hh = dict(h)
            hh.update({"property": prop_id, "invariant": v["inv"], "origin": origin, "check_seed": seed})
            with open(rp, "w") as f:
                f.write(json.dumps(hh) + "\n")
                for e in cut:
                    f.write(json.dumps(e) + "\n")
            violations.append({"replay": rp, "inv": v["inv"], "prim": prim, "origin": origin,
                               "history": op_summary(cut)[-25:]})
    ev["traces_validated_against_impl"] += ev["paths_replayed"]
    # a crash of the code under test while replaying a contract-respecting history is a memory-safety
    # failure: C01's business (the other properties only note it)
    ev["crashes"] = [{k: c[k] for k in ("prim", "flavour", "cfg", "path", "signal")} for c in crashes]
    if prop_id == "C01":
        for c in crashes[:MAX_VIOLATIONS]:
            nviol += 1
            rp = os.path.join(REPLAYS, "%s-%d.ndjson" % (prop_id, nviol))
            with open(rp, "w") as f:
                f.write(json.dumps({"op": "run_start", "prim": c["prim"], "flavour": c["flavour"], "consts": c["consts"],
                                    "property": prop_id, "invariant": "crash (signal %d)" % c["signal"],
                                    "origin": "%s path %s" % (c["cfg"], c["path"])}) + "\n")
                for o in c["ops"]:
                    f.write(json.dumps(o) + "\n")
            violations.append({"replay": rp, "inv": "no-crash", "prim": c["prim"],
                               "origin": "the code under test crashed the process (signal %d) while replaying %s path %s on flavour %s"
                                         % (c["signal"], c["cfg"], c["path"], c["flavour"]),
                               "history": op_summary(c["ops"])[-25:]})

    # samples: a few real executions written out
    for (prim, ck), runs in list(traces.items())[:3]:
        h, evs, origin = runs[0]
        ev["samples"].append({"primitive": prim, "origin": origin, "ops": op_summary(evs)[:40]})
    if not ev["samples"]:
        ev["samples"].append({"note": "no trace recorded"})

    evidence = {
        "property_id": prop_id, "tier": tier, "seed": seed, "level": "model_checking",
        "coverage": ev,
        "assumptions": prop.get("assumptions", []) + [
            "sequentially consistent memory (TLA+ actions are atomic; Relaxed/Release handle counters are not modelled weaker)",
            "the verification hooks (--cfg futures_intrusive_verif) report the real fields of the state structs",
            "parking_lot, lock_api and the Rust standard library are correct",
        ],
        "wall_s": round(time.time() - t0, 1),
        "violations": len(violations),
    }
    with open(os.path.join(EVID, prop_id + ".json"), "w") as f:
        json.dump(evidence, f, indent=1)
    for l in sorted(set(known_lines)):
        print(l)
    for v in violations:
        print("VIOLATION property=%s replay=%s" % (prop_id, v["replay"]))
        print("  invariant %s of %s observer failed on: %s" % (v["inv"], v["prim"], v["origin"]))
        for l in v["history"]:
            print("    " + l)
    log("%s %s: states=%d transitions=%d edges=%d/%d paths=%d random=%d validated=%d drift=%s violations=%d (%.1fs)" % (
        prop_id, tier, ev["states"], ev["transitions"], ev["edges_covered"], ev["edges"], ev["paths_replayed"],
        ev["random_runs"], ev["traces_validated_against_impl"], ev["drift"], len(violations), time.time() - t0))
    if not violations and not os.environ.get("VERIF_KEEP"):
        # scratch (edge tours, recorded traces) is only worth keeping when something has to be looked at
        shutil.rmtree(work, ignore_errors=True)
    return 1 if violations else 0


def run_replay(prop_id, path):
    """Re-executes a recorded history on the current tree and re-validates it."""
    prop = PROPS[prop_id]
    build_harness()
    runs = read_runs(path)
    h, _ = runs[0]
    prim = h["prim"]
    work = os.path.join(CACHE, "replay-%s" % prop_id)
    shutil.rmtree(work, ignore_errors=True)
    os.makedirs(work)
    out = os.path.join(work, "re-executed.ndjson")
    if h.get("flavour") == "slock-threads":
        # a threaded execution: re-run the same program under the same schedule seed
        if "fihc_args" in (runs[0][1][0] if runs[0][1] else {}):
            a = runs[0][1][0]["fihc_args"]
            args = [x for x in a]
            args[args.index("--out") + 1] = out
        else:
            args = ["--prim", prim, "--consts", json.dumps(h["consts"]), "--exact-seed", str(h["seed"]), "--iters", "1",
                    "--out", out] + (["--pct"] if h.get("schedule") == "pct" else [])
        p = subprocess.run([os.path.join(HARNESS, "target", "debug", "fihc")] + args, capture_output=True, text=True, timeout=1800)
        if p.returncode != 0:
            print("VIOLATION property=%s replay=%s" % (prop_id, path))
            print("  the code under test crashed the process (rc %d) while re-running the threaded schedule" % p.returncode)
            return 1
        runs2 = read_runs(out)
        vs, _ = validate_runs(prim, runs2, prop["invs"][prim], os.path.join(work, "obs"), "replay")
        if vs:
            print("VIOLATION property=%s replay=%s" % (prop_id, path))
            print("  invariant %s still fails on the current tree under schedule seed %s" % (vs[0]["inv"], h.get("seed")))
            return 1
        print("schedule %s of %s no longer violates %s on the current tree" % (h.get("seed"), path, prop_id))
        return 0
    try:
        fih(["exec", "--ops", path, "--out", out])
    except CrashError as ce:
        print("VIOLATION property=%s replay=%s" % (prop_id, path))
        print("  the code under test crashed the process (signal %d) while re-executing the history" % -ce.rc)
        return 1
    runs2 = read_runs(out)
    vs, _ = validate_runs(prim, runs2, prop["invs"][prim], os.path.join(work, "obs"), "replay")
    if vs:
        print("VIOLATION property=%s replay=%s" % (prop_id, path))
        print("  invariant %s still fails on the current tree" % vs[0]["inv"])
        return 1
    print("history %s no longer violates %s on the current tree" % (path, prop_id))
    return 0


# ------------------------------------------------------------------ C16

def parse_printt(line):
    i = line.index(', "') + 3
    j = line.rindex('">>')
    return json.loads(json.loads('"' + line[i:j] + '"'))


def run_c16(tier, seed, replay=None):
    """C16: trait facts observed from rustc (harness `probe`) decided by ThreadSafety.tla."""
    t0 = time.time()
    prop_id = "C16"
    work = os.path.join(CACHE, "C16-%s" % tier)
    shutil.rmtree(work, ignore_errors=True)
    os.makedirs(work)
    os.makedirs(REPLAYS, exist_ok=True)
    os.makedirs(EVID, exist_ok=True)
    build_harness()
    traits = os.path.join(work, "traits.json")
    p = subprocess.run([os.path.join(HARNESS, "target", "debug", "probe")], capture_output=True, text=True)
    if p.returncode != 0:
        raise ToolError("probe failed: " + p.stderr[-2000:])
    open(traits, "w").write(p.stdout)
    facts = json.loads(p.stdout)
    rc, out = tlc("ThreadSafety", os.path.join(CFG, "ThreadSafety.cfg"), work, workers=4,
                  env_extra={"TRAITS": traits}, timeout=1800)
    gen, dist, err = tlc_stats(out)
    if rc == 124 or err or gen is None:
        tail = subprocess.run("grep -v C16VIOL %s | tail -40" % out, shell=True, capture_output=True, text=True).stdout
        raise ToolError("TLC failed on ThreadSafety: %s\n%s" % (err, tail))
    static = None
    groups = {}
    nviol_states = 0
    with open(out, errors="replace") as f:
        for line in f:
            if line.startswith('<<"C16STATIC"'):
                static = parse_printt(line)
            elif line.startswith('<<"C16VIOL"'):
                d = parse_printt(line)
                nviol_states += 1
                for v in d["violations"]:
                    key = (d["family"], v[0], v[1], v[2])
                    cur = groups.get(key)
                    if cur is None or len(d["program"]) < len(cur["program"]):
                        groups[key] = {"family": d["family"], "trait": v[0], "kind": v[1], "resource": v[2],
                                       "combo": d["combo"], "program": d["program"]}
    if static is None:
        raise ToolError("ThreadSafety did not report its static checks")
    findings = []
    for key in sorted(groups):
        g = groups[key]
        g["what"] = "%s: a %s can reach thread 2 although the %s (%s) is not %s" % (
            g["family"], g["kind"], g["resource"], g["combo"]["p" if g["resource"] == "payload" else ("b" if g["resource"] == "buffer" else "l")],
            "Send" if g["trait"] == "send" else "Sync")
        findings.append(g)
    for k in static["unpin"]:
        findings.append({"family": "-", "trait": "unpin", "kind": k.split("|")[0], "resource": "wait_node", "combo": {"key": k},
                         "program": [["poll", k], ["move after first poll (Unpin)", k]],
                         "what": "future %s embeds a wait node but is Unpin" % k})
    for r in static["regressions"]:
        findings.append({"family": "-", "trait": r[0], "kind": r[1].split("|")[0], "resource": "-", "combo": {"key": r[1]},
                         "program": [], "what": ("%s (local flavour) is Send or Sync: it can cross threads although the no-op lock does not lock" % r[1])
                                                if r[0] == "local_crosses_threads" else
                                                ("%s is documented as %s but no longer is" % (r[1], "Send" if r[0] == "lost_send" else "Sync"))})
    known = [k for k in load_known() if k.get("property") == "C16" and k.get("status") == "known"]
    def is_known(g):
        for k in known:
            sg = k.get("signature", {})
            if all(sg.get(x) == g.get(x) for x in ("trait", "kind", "resource")):
                return k
        return None
    violations = []
    known_lines = []
    want = None
    if replay:
        want = json.loads(open(replay).readline())
    n = 0
    for g in findings:
        if want is not None and not all(want.get(x) == g.get(x) for x in ("trait", "kind", "resource")):
            continue
        k = is_known(g) if want is None else None
        if k:
            known_lines.append("KNOWN-FINDING: property=C16 %s" % k["what"])
            continue
        n += 1
        rp = replay or os.path.join(REPLAYS, "C16-%d.ndjson" % n)
        if not replay:
            with open(rp, "w") as f:
                rec = dict(g)
                rec.update({"property": "C16", "facts": {kk: vv for kk, vv in facts.items() if kk.split("|")[0] == g["kind"]}})
                f.write(json.dumps(rec) + "\n")
        violations.append((g, rp))
    ev = {"states": dist, "transitions": gen, "traces_validated_against_impl": len(facts),
          "samples": [{"fact": k, "observed": facts[k]} for k in list(facts)[:6]] +
                     [{"program": g["program"], "family": g["family"], "combo": g["combo"], "finding": g["what"]} for g in findings[:4]],
          "facts_observed": len(facts), "violating_states": nviol_states,
          "finding_classes": [g["what"] for g in findings],
          "explanation": "facts = rustc's verdict on Send/Sync/Unpin for every public type x witness (lock, payload, buffer), "
                         "observed by autoref specialisation in harness/src/bin/probe.rs; TLC explores all programs of <= 5 "
                         "moves/shares/API calls over two threads for 14 type families and reports reachable states in which a "
                         "!Send resource is used exclusively off its thread or a !Sync resource is shared by two threads",
          "exhaustive": True}
    evidence = {"property_id": "C16", "tier": tier, "seed": seed, "level": "model_checking", "coverage": ev,
                "assumptions": ["the capability tables in ThreadSafety.tla describe the public API (written from the signatures)",
                                "witness types: parking_lot::RawMutex / NoopLock; i32, Cell<i32>, a Sync+!Send type, Rc<i32>; ArrayBuf and a !Send RingBuf",
                                "lock types that are Sync but !Send are not among the witnesses"],
                "wall_s": round(time.time() - t0, 1), "violations": len(violations)}
    if not replay:
        with open(os.path.join(EVID, "C16.json"), "w") as f:
            json.dump(evidence, f, indent=1)
    for l in sorted(set(known_lines)):
        print(l)
    for g, rp in violations:
        print("VIOLATION property=C16 replay=%s" % rp)
        print("  " + g["what"])
        for st in g["program"]:
            print("    " + " ".join(str(x) for x in st))
    log("C16 %s: facts=%d states=%d transitions=%d findings=%d known=%d violations=%d (%.1fs)" % (
        tier, len(facts), dist, gen, len(findings), len(set(known_lines)), len(violations), time.time() - t0))
    return 1 if violations else 0


def main(argv):
    if not argv:
        print(__doc__)
        return 2
    prop_id = argv[0]
    tier = os.environ.get("VERIF_TIER", "quick")
    replay = None
    i = 1
    while i < len(argv):
        if argv[i] == "--tier":
            tier = argv[i + 1]
            i += 2
        elif argv[i] == "--replay":
            replay = argv[i + 1]
            i += 2
        else:
            i += 1
    seed = int(os.environ.get("VERIF_SEED", "1"))
    if prop_id not in PROPS and prop_id != "C16":
        print("unknown property", prop_id, file=sys.stderr)
        return 2
    try:
        if prop_id == "C16":
            return run_c16(tier, seed, replay)
        if replay:
            return run_replay(prop_id, replay)
        return run_check(prop_id, tier, seed)
    except ToolError as e:
        print("TOOL-ERROR:", e, file=sys.stderr)
        return 2
    except subprocess.TimeoutExpired as e:
        print("TOOL-ERROR: timeout", e, file=sys.stderr)
        return 2
