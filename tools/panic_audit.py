#!/usr/bin/env python3
"""Robustness audit of the observers (not a property check): a call of the real code that panics is recorded as a
minimal event (op, identifying arguments, res = "panic", no result fields).  For every kind of operation that
occurs in a recorded execution of each primitive, the execution is cut after the first such call and that call is
replaced by its panicked form; the observer has to REJECT the trace through invariant C01 (a panic on a
contract-respecting history) - a TLC evaluation error (a tool error, exit 2) would hide the defect behind it.
(Added after seeded change C15-q3: `delay()` panicked and TimerObs read the missing `val`.)
Exit 0 if every panicked call is rejected by an invariant."""
import sys, os, json, copy, shutil
sys.path.insert(0, os.path.dirname(os.path.abspath(__file__)))
import vlib
import selftest

IDKEYS = ("op", "f", "s", "r", "n", "k", "v", "d", "t", "id", "a", "w", "cid", "th")

def main():
    work = os.path.join(vlib.CACHE, "panic-audit")
    shutil.rmtree(work, ignore_errors=True)
    os.makedirs(work)
    selftest.WORK = work
    vlib.build_harness()
    ok = True
    for prim, fl, consts, invs, _ in selftest.CASES:
        if "C01" not in invs:
            continue            # containers: a panic there is reported by C19 / C20 through the result comparison
        runs = selftest.record(prim, fl, consts)
        h, evs = runs[0]
        ops = []
        for e in evs:
            # poll after completion (`*_done`) is documented to panic; the clock of the timer tests is not library code
            if e["op"] not in ops and not e["op"].endswith("_done") and e["op"] not in ("set_clock", "wake"):
                ops.append(e["op"])
        for op in ops:
            i = selftest.first(evs, lambda e: e["op"] == op)
            cut = copy.deepcopy(evs[:i + 1])
            cut[i] = {k: v for k, v in cut[i].items() if k in IDKEYS}
            cut[i].update(res="panic", panic="seeded by panic_audit")
            try:
                vs, _ = vlib.validate_runs(prim, [(h, cut)], ["C01"], os.path.join(work, "obs"), "%s-%s" % (prim, op))
                got = vs[0]["inv"] if vs else "ACCEPTED"
            except vlib.ToolError as ex:
                got = "TOOL-ERROR"
            good = got == "C01"
            ok &= good
            print("%-10s panicked %-16s -> %s%s" % (prim, op, got, "" if good else "   **UNEXPECTED**"))
    print("PANIC-AUDIT", "OK" if ok else "FAILED")
    return 0 if ok else 1

if __name__ == "__main__":
    sys.exit(main())
