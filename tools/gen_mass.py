#!/usr/bin/env python3
"""Writes the 'mass' histories under regress/<prim>/: K futures parked on one primitive and released by
a single call (set / release / close / send / check_expirations after a clock jump), K well beyond the
model bounds and beyond any small inline buffer an implementation might use for collected wakers.
They are executed on every flavour by phase 3b of every check that covers the primitive and validated
against the observer like any other recorded run (C18: no allocation; C03/C06/C10/C14/C15: everybody
woken, in order)."""
import json, os, sys
ROOT = os.path.dirname(os.path.dirname(os.path.abspath(__file__)))
K = 40

def write(prim, name, consts, ops, note, flavours=None):
    d = os.path.join(ROOT, "regress", prim)
    os.makedirs(d, exist_ok=True)
    with open(os.path.join(d, name), "w") as f:
        h = {"op": "run_start", "prim": prim, "consts": consts, "note": note}
        if flavours:
            h["flavours"] = flavours
        f.write(json.dumps(h) + "\n")
        for o in ops:
            f.write(json.dumps(o) + "\n")

def fut_cycle(create, trigger, k=K, slot="f", poll="poll", drop="drop", after=None):
    ops = []
    for i in range(1, k + 1):
        ops.append(create(i))
    for i in range(1, k + 1):
        ops.append({"op": poll, slot: i, "w": "A" if i % 3 else "B"})
    ops += trigger
    for i in range(1, k + 1):
        ops.append({"op": poll, slot: i, "w": "A"})
    if after:
        ops += after
    for i in range(1, k + 1):
        ops.append({"op": drop, slot: i})
    return ops

# event: K waiters, one set()
write("event", "mass-set.ndjson", {"K": K, "InitSet": False, "Wk": [1, 2]},
      fut_cycle(lambda i: {"op": "create", "f": i}, [{"op": "set"}]),
      "K waiters released by one set()")
# semaphore: K waiters of one permit each, one release(K)
for fair in (True, False):
    write("semaphore", "mass-release-%s.ndjson" % ("fair" if fair else "unfair"),
          {"K": K, "Fair": fair, "Wk": [1, 2], "Init0": 0, "MaxReq": 1, "Reqs": [0, 1], "MaxP": K, "MaxRels": K},
          fut_cycle(lambda i: {"op": "create", "f": i, "n": 1}, [{"op": "release", "n": K}],
                    after=[{"op": "drop_releaser", "a": 1} for _ in range(K)]),
          "K waiters released by one release(K)")
# timer: K timers with deadlines 1..4, the clock jumps past all of them, one check_expirations()
write("timer", "mass-expire.ndjson", {"K": K, "Wk": [1, 2]},
      fut_cycle(lambda i: {"op": "create", "f": i, "t": 1 + (i * 7) % 4},
                [{"op": "set_clock", "t": 9}, {"op": "check"}, {"op": "next_exp"}]),
      "K timers expiring in one check_expirations()")
# oneshot broadcast: K receivers, one send
write("oneshot", "mass-broadcast.ndjson", {"K": K, "Wk": [1, 2], "Broadcast": True, "Shared": False, "MaxV": 2, "MaxH": 1},
      fut_cycle(lambda i: {"op": "create", "r": i}, [{"op": "send", "v": 1}], slot="r"),
      "K receivers released by one send()", flavours=["bc-local", "bc-pl", "bc-vlock"])
# state broadcast: K receivers, one send, then close
write("state", "mass-send.ndjson", {"K": K, "Wk": [1, 2], "Shared": False, "MaxSid": 3, "MaxV": 2, "MaxH": 1},
      fut_cycle(lambda i: {"op": "create", "r": i, "id": 0}, [{"op": "send", "v": 1}], slot="r"),
      "K receivers released by one send()")
# mpmc: NR receivers parked on an empty channel and NS senders... one close() releases the receivers
NR = 30
ops = []
for r in range(1, NR + 1):
    ops.append({"op": "create_recv", "r": r})
for r in range(1, NR + 1):
    ops.append({"op": "poll_recv", "r": r, "w": "A"})
ops.append({"op": "close"})
for r in range(1, NR + 1):
    ops.append({"op": "poll_recv", "r": r, "w": "A"})
for r in range(1, NR + 1):
    ops.append({"op": "drop_recv", "r": r})
write("mpmc", "mass-close-receivers.ndjson",
      {"NS": 2, "NR": NR, "Cap": 1, "Wk": [1, 2], "MaxV": 60, "MaxH": 1, "Shared": False, "WithStream": False, "WithCancel": True},
      ops, "NR receivers released by one close()")
NS = 30
ops = [{"op": "try_send", "v": 1}]
for s in range(1, NS + 1):
    ops.append({"op": "create_send", "s": s, "v": 1 + s})
for s in range(1, NS + 1):
    ops.append({"op": "poll_send", "s": s, "w": "A"})
ops.append({"op": "close"})
for s in range(1, NS + 1):
    ops.append({"op": "poll_send", "s": s, "w": "A"})
for s in range(1, NS + 1):
    ops.append({"op": "drop_send", "s": s})
write("mpmc", "mass-close-senders.ndjson",
      {"NS": NS, "NR": 2, "Cap": 1, "Wk": [1, 2], "MaxV": 60, "MaxH": 1, "Shared": False, "WithStream": False, "WithCancel": True},
      ops, "NS senders parked on a full channel released by one close()")

# ---- large contents: heap buffers beyond their first allocation / growth steps (8, 16, 32 slots)
BIG = 40
for shared in (False, True):
    ops = [{"op": "try_send", "v": v} for v in range(1, BIG + 1)]
    ops.append({"op": "try_send", "v": BIG + 1})            # full
    ops += [{"op": "try_recv"} for _ in range(10)]
    ops += [{"op": "try_send", "v": v} for v in range(BIG + 1, BIG + 11)]
    ops.append({"op": "drop_sender"} if shared else {"op": "close"})
    ops += [{"op": "try_recv"} for _ in range(BIG + 1)]
    if shared:
        ops += [{"op": "drop_receiver"}, {"op": "destroy"}]
    write("mpmc", "mass-buffered-%s.ndjson" % ("shared" if shared else "borrowed"),
          {"NS": 2, "NR": 2, "Cap": BIG, "Wk": [1, 2], "MaxV": 60, "MaxH": 1, "Shared": shared, "WithStream": False, "WithCancel": True},
          ops, "%d values buffered at once in a heap buffer" % BIG,
          flavours=["shared-growing", "shared-fixed", "shared-vlock-array"] if shared else ["pl-fixed", "pl-growing", "local-array", "pl-array"])
ops = [{"op": "push", "v": v} for v in range(1, BIG + 1)]
ops += [{"op": "query"}]
ops += [{"op": "pop"} for _ in range(20)]
ops += [{"op": "push", "v": v} for v in range(BIG + 1, BIG + 21)]
ops += [{"op": "query"}]
ops += [{"op": "pop"} for _ in range(25)]
ops += [{"op": "drop_buffer"}]
write("ring", "mass-fill.ndjson", {"Cap": BIG, "MaxV": 80}, ops,
      "%d elements in a ring buffer, wrap-around, drop with 15 left" % BIG, flavours=["fixed", "growing", "array"])

# ---- boundary values: requests at the upper end of usize (codes >= INF stand for usize::MAX - (n - INF))
INF = 2000000000
for fair in (True, False):
    ops = [{"op": "try_acquire", "n": INF}, {"op": "try_acquire", "n": INF + 1},
           {"op": "create", "f": 1, "n": INF}, {"op": "poll", "f": 1, "w": "A"},
           {"op": "create", "f": 2, "n": 1}, {"op": "poll", "f": 2, "w": "A"},
           {"op": "release", "n": 1}, {"op": "poll", "f": 1, "w": "A"}, {"op": "poll", "f": 2, "w": "B"},
           {"op": "permits"},
           {"op": "drop", "f": 1}, {"op": "poll", "f": 2, "w": "A"}, {"op": "permits"}, {"op": "drop", "f": 2},
           {"op": "create", "f": 3, "n": INF + 2}, {"op": "poll", "f": 3, "w": "A"}, {"op": "release", "n": 3},
           {"op": "poll", "f": 3, "w": "A"}, {"op": "drop", "f": 3}, {"op": "permits"}]
    write("semaphore", "huge-requests-%s.ndjson" % ("fair" if fair else "unfair"),
          {"K": 3, "Fair": fair, "Wk": [1, 2], "Init0": 2, "MaxReq": 1, "Reqs": [0, 1], "MaxP": 8, "MaxRels": 4},
          ops, "requests near usize::MAX can never be granted")

# ---- long chains: one wake-up per call, many calls
NP = 30
# mpmc: NP senders parked behind a full one-slot buffer, drained by try_recv one at a time
ops = [{"op": "try_send", "v": 1}]
for i in range(1, NP + 1):
    ops.append({"op": "create_send", "s": i, "v": 1 + i})
for i in range(1, NP + 1):
    ops.append({"op": "poll_send", "s": i, "w": "A" if i % 2 else "B"})
for i in range(1, NP + 1):
    ops.append({"op": "try_recv"})
    ops.append({"op": "poll_send", "s": i, "w": "A"})
ops += [{"op": "try_recv"}, {"op": "try_recv"}]
for i in range(1, NP + 1):
    ops.append({"op": "drop_send", "s": i})
write("mpmc", "mass-drain-senders.ndjson",
      {"NS": NP, "NR": 2, "Cap": 1, "Wk": [1, 2], "MaxV": 60, "MaxH": 1, "Shared": False, "WithStream": False, "WithCancel": True},
      ops, "NP parked senders move into the buffer one receive at a time, in order")
# mpmc: NP receivers parked on an empty channel, served by try_send one at a time
ops = []
for i in range(1, NP + 1):
    ops.append({"op": "create_recv", "r": i})
for i in range(1, NP + 1):
    ops.append({"op": "poll_recv", "r": i, "w": "A" if i % 2 else "B"})
for i in range(1, NP + 1):
    ops.append({"op": "try_send", "v": i})
    ops.append({"op": "poll_recv", "r": i, "w": "A"})
for i in range(1, NP + 1):
    ops.append({"op": "drop_recv", "r": i})
write("mpmc", "mass-serve-receivers.ndjson",
      {"NS": 2, "NR": NP, "Cap": 1, "Wk": [1, 2], "MaxV": 60, "MaxH": 1, "Shared": False, "WithStream": False, "WithCancel": True},
      ops, "NP parked receivers are served one send at a time, in order")
# mutex: K waiters behind a holder, the guard travels down the queue
for fair in (True, False):
    ops = [{"op": "try_lock"}]
    for i in range(1, K + 1):
        ops.append({"op": "create", "f": i})
    for i in range(1, K + 1):
        ops.append({"op": "poll", "f": i, "w": "A" if i % 3 else "B"})
    for i in range(1, K + 1):
        ops.append({"op": "drop_guard"})
        ops.append({"op": "poll", "f": i, "w": "A"})
    ops.append({"op": "drop_guard"})
    for i in range(1, K + 1):
        ops.append({"op": "drop", "f": i})
    write("mutex", "mass-chain-%s.ndjson" % ("fair" if fair else "unfair"), {"K": K, "Fair": fair, "Wk": [1, 2]}, ops,
          "K waiters, the guard is handed down the queue one unlock at a time")

# ---- a user-provided RealArray (length 96: above 64, not a power of two), filled completely, wrapped twice
U = 96
ops = [{"op": "push", "v": v} for v in range(1, U + 1)]
ops += [{"op": "push", "v": U + 1}, {"op": "query"}]
ops += [{"op": "pop"} for _ in range(60)]
ops += [{"op": "push", "v": v} for v in range(U + 1, U + 61)]
ops += [{"op": "query"}]
ops += [{"op": "pop"} for _ in range(80)]
ops += [{"op": "push", "v": v} for v in range(U + 61, U + 101)]
ops += [{"op": "pop"} for _ in range(50)]
ops += [{"op": "drop_buffer"}]
write("ring", "mass-user-array.ndjson", {"Cap": U, "MaxV": 200}, ops,
      "ArrayBuf over a user RealArray of 96 elements: full, wrapped twice, dropped with elements left", flavours=["array"])
ops = [{"op": "try_send", "v": v} for v in range(1, U + 1)]
ops.append({"op": "try_send", "v": U + 1})
ops += [{"op": "try_recv"} for _ in range(70)]
ops += [{"op": "try_send", "v": v} for v in range(U + 1, U + 51)]
ops.append({"op": "close"})
ops += [{"op": "try_recv"} for _ in range(77)]
write("mpmc", "mass-user-array.ndjson",
      {"NS": 2, "NR": 2, "Cap": U, "Wk": [1, 2], "MaxV": 160, "MaxH": 1, "Shared": False, "WithStream": False, "WithCancel": True},
      ops, "channel over a user RealArray of 96 elements", flavours=["local-array", "pl-array"])
print("mass histories written")
