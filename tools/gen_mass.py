#!/usr/bin/env python3
"""Writes the 'mass' histories under regress/<prim>/: K futures parked on one primitive and released by
a single call (set / release / close / send / check_expirations after a clock jump), K well beyond the
model bounds and beyond any small inline buffer an implementation might use for collected wakers.
They are executed on every flavour by phase 3b of every check that covers the primitive and validated
against the observer like any other recorded run (C18: no allocation; C03/C06/C10/C14/C15: everybody
woken, in order)."""
import json, os, sys
ROOT = os.path.dirname(os.path.dirname(os.path.abspath(__file__)))
K = 40

def write(prim, name, consts, ops, note, flavours=None):
    d = os.path.join(ROOT, "regress", prim)
    os.makedirs(d, exist_ok=True)
    with open(os.path.join(d, name), "w") as f:
        h = {"op": "run_start", "prim": prim, "consts": consts, "note": note}
        if flavours:
            h["flavours"] = flavours
        f.write(json.dumps(h) + "\n")
        for o in ops:
            f.write(json.dumps(o) + "\n")

def fut_cycle(create, trigger, k=K, slot="f", poll="poll", drop="drop", after=None):
    ops = []
    for i in range(1, k + 1):
        ops.append(create(i))
    for i in range(1, k + 1):
        ops.append({"op": poll, slot: i, "w": "A" if i % 3 else "B"})
    ops += trigger
    for i in range(1, k + 1):
        ops.append({"op": poll, slot: i, "w": "A"})
    if after:
        ops += after
    for i in range(1, k + 1):
        ops.append({"op": drop, slot: i})
    return ops

# event: K waiters, one set()
write("event", "mass-set.ndjson", {"K": K, "InitSet": False, "Wk": [1, 2]},
      fut_cycle(lambda i: {"op": "create", "f": i}, [{"op": "set"}]),
      "K waiters released by one set()")
# semaphore: K waiters of one permit each, one release(K)
for fair in (True, False):
    write("semaphore", "mass-release-%s.ndjson" % ("fair" if fair else "unfair"),
          {"K": K, "Fair": fair, "Wk": [1, 2], "Init0": 0, "MaxReq": 1, "Reqs": [0, 1], "MaxP": K, "MaxRels": K},
          fut_cycle(lambda i: {"op": "create", "f": i, "n": 1}, [{"op": "release", "n": K}],
                    after=[{"op": "drop_releaser", "a": 1} for _ in range(K)]),
          "K waiters released by one release(K)")
# timer: K timers with deadlines 1..4, the clock jumps past all of them, one check_expirations()
write("timer", "mass-expire.ndjson", {"K": K, "Wk": [1, 2]},
      fut_cycle(lambda i: {"op": "create", "f": i, "t": 1 + (i * 7) % 4},
                [{"op": "set_clock", "t": 9}, {"op": "check"}, {"op": "next_exp"}]),
      "K timers expiring in one check_expirations()")
# oneshot broadcast: K receivers, one send
write("oneshot", "mass-broadcast.ndjson", {"K": K, "Wk": [1, 2], "Broadcast": True, "Shared": False, "MaxV": 2, "MaxH": 1},
      fut_cycle(lambda i: {"op": "create", "r": i}, [{"op": "send", "v": 1}], slot="r"),
      "K receivers released by one send()", flavours=["bc-local", "bc-pl", "bc-vlock"])
# state broadcast: K receivers, one send, then close
write("state", "mass-send.ndjson", {"K": K, "Wk": [1, 2], "Shared": False, "MaxSid": 3, "MaxV": 2, "MaxH": 1},
      fut_cycle(lambda i: {"op": "create", "r": i, "id": 0}, [{"op": "send", "v": 1}], slot="r"),
      "K receivers released by one send()")
# mpmc: NR receivers parked on an empty channel and NS senders... one close() releases the receivers
NR = 30
ops = []
for r in range(1, NR + 1):
    ops.append({"op": "create_recv", "r": r})
for r in range(1, NR + 1):
    ops.append({"op": "poll_recv", "r": r, "w": "A"})
ops.append({"op": "close"})
for r in range(1, NR + 1):
    ops.append({"op": "poll_recv", "r": r, "w": "A"})
for r in range(1, NR + 1):
    ops.append({"op": "drop_recv", "r": r})
write("mpmc", "mass-close-receivers.ndjson",
      {"NS": 2, "NR": NR, "Cap": 1, "Wk": [1, 2], "MaxV": 60, "MaxH": 1, "Shared": False, "WithStream": False, "WithCancel": True},
      ops, "NR receivers released by one close()")
NS = 30
ops = [{"op": "try_send", "v": 1}]
for s in range(1, NS + 1):
    ops.append({"op": "create_send", "s": s, "v": 1 + s})
for s in range(1, NS + 1):
    ops.append({"op": "poll_send", "s": s, "w": "A"})
ops.append({"op": "close"})
for s in range(1, NS + 1):
    ops.append({"op": "poll_send", "s": s, "w": "A"})
for s in range(1, NS + 1):
    ops.append({"op": "drop_send", "s": s})
write("mpmc", "mass-close-senders.ndjson",
      {"NS": NS, "NR": 2, "Cap": 1, "Wk": [1, 2], "MaxV": 60, "MaxH": 1, "Shared": False, "WithStream": False, "WithCancel": True},
      ops, "NS senders parked on a full channel released by one close()")
print("mass histories written")
