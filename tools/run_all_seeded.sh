#!/bin/sh
# Regression over every seeded change: applies each patch to /repo, runs the quick check of its property,
# undoes it; prints one line per change. A change that is no longer detected is a regression of the machinery.
# usage: tools/run_all_seeded.sh [name-pattern]   (output also in notes/seeded-regression.txt)
#        SKIP_FILE=<earlier output>: names listed there are not run again
cd /verif || exit 2
OUT=notes/seeded-regression.txt
: > $OUT
for D in seeded/*${1:-}*/; do
  N=$(basename $D)
  [ -f $D/patch.diff ] || continue
  if [ -n "${SKIP_FILE:-}" ] && grep -q "^$N " "$SKIP_FILE"; then continue; fi
  P=$(python3 -c "import json;print(json.load(open('$D/meta.json'))['property'])" 2>/dev/null) || continue
  case "$N" in benign-*) EXPECT=0 ;; *) EXPECT=1 ;; esac
  R=$(tools/try_mutant.sh /verif/$D/patch.diff $P | head -1)
  RC=$(echo "$R" | sed -n 's/.*rc=\([0-9]*\).*/\1/p')
  if [ "$RC" = "$EXPECT" ]; then V=ok; else V=UNEXPECTED; fi
  echo "$N property=$P expected_rc=$EXPECT $R [$V]" | tee -a $OUT
done
