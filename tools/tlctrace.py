#!/usr/bin/env python3
"""Print the evt records of a TLC error trace compactly (one line per state)."""
import sys, re
txt = open(sys.argv[1], errors="replace").read()
keep = ("op", "f", "s", "r", "n", "a", "w", "v", "rv", "t", "d", "res", "val", "taken", "wakes", "dropped", "i", "k", "x")
states = re.split(r"\nState \d+: ", txt)
for st in states[1:]:
    m = re.search(r"/\\ evt = \[(.*?)\]\n(?:/\\|\n|$)", st, re.S)
    if not m:
        continue
    body = " ".join(m.group(1).split())
    parts = re.findall(r"(\w+) \|-> ((?:<<.*?>>(?=,| *$))|(?:\"[^\"]*\")|(?:[\w-]+))", body)
    d = dict(parts)
    bad = re.search(r"/\\ bad = (\{.*?\})", st)
    print(" ".join("%s=%s" % (k, d[k]) for k in keep if k in d), "| bad=" + (bad.group(1) if bad else "?"))
