#!/usr/bin/env python3
"""Seed sweep of the code->spec direction only (random histories, shuttle schedules, regress histories),
all observer invariants of every primitive.  usage: stress.py <first_seed> <last_seed> [tier]
Prints one line per seed; any invariant failure on the unchanged tree would be a false alarm (or a defect)."""
import sys, os, json, shutil, subprocess, time
sys.path.insert(0, os.path.dirname(os.path.abspath(__file__)))
import vlib
from registry import PRIMS, PROPS

def invs_of(prim):
    out = []
    for pid, p in PROPS.items():
        for i in p["invs"].get(prim, []):
            if i not in out:
                out.append(i)
    return out

def main():
    a, b = int(sys.argv[1]), int(sys.argv[2])
    tier = sys.argv[3] if len(sys.argv) > 3 else "quick"
    vlib.build_harness()
    for seed in range(a, b + 1):
        t0 = time.time()
        work = os.path.join(vlib.CACHE, "stress-%d" % seed)
        shutil.rmtree(work, ignore_errors=True)
        os.makedirs(work)
        traces = {}
        def add(prim, path, origin):
            for (h, evs) in vlib.read_runs(path):
                traces.setdefault((prim, vlib.consts_key(prim, h)), []).append((h, evs, origin))
        for prim, info in PRIMS.items():
            for i, rc in enumerate(info["random"][tier]):
                for fl in rc.get("flavours", info["flavours"]):
                    out = os.path.join(work, "random-%s-%s-%d.ndjson" % (prim, fl, i))
                    vlib.fih(["random", "--prim", prim, "--flavour", fl, "--consts", json.dumps(rc["consts"]),
                              "--seed", str(seed + 1000 * i), "--runs", str(rc["runs"]), "--len", str(rc["len"]), "--out", out])
                    add(prim, out, "random %s" % fl)
            for i, cc in enumerate(info.get("conc", {}).get(tier, [])):
                out = os.path.join(work, "conc-%s-%d.ndjson" % (prim, i))
                args = ["--prim", prim, "--consts", json.dumps(cc["consts"]), "--seed", str(seed + 77 * i),
                        "--iters", str(cc["iters"]), "--out", out] + (["--pct"] if cc.get("pct") else [])
                p = subprocess.run([os.path.join(vlib.HARNESS, "target", "debug", "fihc")] + args, capture_output=True, text=True)
                if p.returncode != 0:
                    print("seed %d: fihc failed for %s: %s" % (seed, prim, p.stderr[-500:]))
                    continue
                add(prim, out, "threads")
        bad = []
        n = 0
        for (prim, ck), runs in traces.items():
            vs, nval = vlib.validate_runs(prim, [(h, e) for (h, e, o) in runs], invs_of(prim), os.path.join(work, "obs"),
                                          "%s-%d" % (prim, n))
            n += nval + 1
            for v in vs:
                h, evs, origin = runs[v["run"]]
                rp = os.path.join(vlib.REPLAYS, "stress-%d-%s-%s.ndjson" % (seed, prim, v["inv"]))
                with open(rp, "w") as f:
                    f.write(json.dumps(h) + "\n")
                    for e in evs[: v["event"]]:
                        f.write(json.dumps(e) + "\n")
                bad.append("%s/%s (%s) -> %s" % (prim, v["inv"], origin, rp))
        print("seed %d: %d runs validated, %d invariant failures %s (%.0fs)" % (seed, n, len(bad), bad, time.time() - t0), flush=True)
        shutil.rmtree(work, ignore_errors=True)

if __name__ == "__main__":
    main()
