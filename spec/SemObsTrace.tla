--------------------------- MODULE SemObsTrace ---------------------------
(***************************************************************************)
(* Observer-mode trace validation for the semaphore: replays an execution      *)
(* recorded from the real code (NDJSON, one event per line, runs separated *)
(* by "reset" events) through the client-level observer SemObs and       *)
(* evaluates every property in every state of the trace.  Nothing about    *)
(* the implementation is assumed: only the events the code produced.       *)
(***************************************************************************)
EXTENDS SemObs, Json, IOUtils, TLCExt

VARIABLES l      \* position in the recorded trace

Rec == ndJsonDeserialize(IOEnv.TRACE)

\* constants come from the header line of the trace (cfg: K <- TraceK, ...)
TraceK == Rec[1].consts.K
TraceFair == Rec[1].consts.Fair
TraceInit0 == Rec[1].consts.Init0
TraceMaxReq == Rec[1].consts.MaxReq

tvars == <<obsVars, l>>

TraceInit == ObsInit /\ l = 1

TraceNext ==
  /\ l <= Len(Rec)
  /\ l' = l + 1
  /\ IF Rec[l].op = "reset"
     THEN /\ oA' = [f \in Slots |-> "none"]
          /\ oReq' = [f \in Slots |-> 0]
          /\ oLastW' = [f \in Slots |-> "-"]
          /\ oWoken' = [f \in Slots |-> FALSE]
          /\ oOrd' = <<>>
          /\ oRels' = [a \in Amts |-> 0]
          /\ oLedger' = Init0
          /\ bad' = {}
     ELSE ObsStep(Rec[l])

TraceSpec == TraceInit /\ [][TraceNext]_tvars

\* the whole trace was consumed
TraceAccepted ==
  LET d == TLCGet("stats").diameter IN
  IF d - 1 = Len(Rec) THEN TRUE
  ELSE Print(<<"TRACE-REJECTED at line", d, IF d <= Len(Rec) THEN Rec[d] ELSE "eof">>, FALSE)

\* error traces print only the position and the verdict (ALIAS in the cfg)
TraceAlias == [l |-> l, bad |-> bad]
=============================================================================
