------------------------------ MODULE TimerLive ------------------------------
(***************************************************************************)
(* Liveness half of C15: K tasks each wait for one deadline (created at    *)
(* any time with a deadline up to MaxNow), park when Pending and poll      *)
(* again only after having been woken through the waker of their latest    *)
(* poll; a driver advances the clock step by step up to MaxNow and runs    *)
(* check_expirations().  The actions are the ones of Timer.tla.            *)
(*   Progress : every parked task eventually completes, provided the       *)
(*              driver keeps ticking and checking, and woken tasks poll    *)
(*   Due      : once the clock has reached a parked task's deadline, one   *)
(*              check_expirations() is enough (no further tick needed)     *)
(***************************************************************************)
EXTENDS Timer

VARIABLES pc      \* task -> "idle" | "polling" | "parked" | "cleanup" | "done"
lvars == <<vars, pc>>

LInit == Init /\ pc = [t \in Slots |-> "idle"]

Start(t, d) == /\ pc[t] = "idle" /\ st[t] = "none"
               /\ st' = [st EXCEPT ![t] = "unreg"] /\ expiry' = [expiry EXCEPT ![t] = d]
               /\ UNCHANGED <<now, fin, task, heap>>
               /\ Emit([op |-> "create", f |-> t, t |-> d])
               /\ pc' = [pc EXCEPT ![t] = "polling"]
PollT(t) == /\ pc[t] = "polling" \/ (pc[t] = "parked" /\ oWoken[t])
            /\ Poll(t, "A")
            /\ pc' = [pc EXCEPT ![t] = IF evt'.res = "ready" THEN "cleanup" ELSE "parked"]
\* every task waits once (the state space stays finite without bounding rounds)
Cleanup(t) == pc[t] = "cleanup" /\ Drop(t) /\ pc' = [pc EXCEPT ![t] = "done"]
Tick == now < MaxNow /\ SetClock(now + 1) /\ UNCHANGED pc
CheckL == Check /\ UNCHANGED pc

LNext == \/ \E t \in Slots : (\E d \in Deadlines : Start(t, d)) \/ PollT(t) \/ Cleanup(t)
         \/ Tick \/ CheckL

LiveSpec == /\ LInit /\ [][LNext]_lvars
            /\ \A t \in Slots : WF_lvars(PollT(t)) /\ WF_lvars(Cleanup(t))
            /\ WF_lvars(Tick) /\ WF_lvars(CheckL)
\* without the clock: only the check and the polls are fair
LiveSpecNoTick == /\ LInit /\ [][LNext]_lvars
                  /\ \A t \in Slots : WF_lvars(PollT(t)) /\ WF_lvars(Cleanup(t))
                  /\ WF_lvars(CheckL)

Parked(t) == pc[t] = "parked"
Progress == \A t \in Slots : Parked(t) ~> ~Parked(t)
Due == \A t \in Slots : (Parked(t) /\ now >= expiry[t]) ~> ~Parked(t)
=============================================================================
