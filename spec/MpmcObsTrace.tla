--------------------------- MODULE MpmcObsTrace ---------------------------
(***************************************************************************)
(* Observer-mode trace validation for the MPMC channel: replays an execution      *)
(* recorded from the real code (NDJSON, one event per line, runs separated *)
(* by "run_start" events) through the client-level observer MpmcObs and       *)
(* evaluates every property in every state of the trace.  Nothing about    *)
(* the implementation is assumed: only the events the code produced.       *)
(***************************************************************************)
EXTENDS MpmcObs, Json, IOUtils, TLCExt

VARIABLES l      \* position in the recorded trace

Rec == ndJsonDeserialize(IOEnv.TRACE)

\* constants come from the header line of the trace (cfg: NS <- TraceNS, ...)
TraceNS == Rec[1].consts.NS
TraceNR == Rec[1].consts.NR
TraceCap == Rec[1].consts.Cap
TraceMaxV == Rec[1].consts.MaxV
TraceShared == Rec[1].consts.Shared

tvars == <<obsVars, l>>

TraceInit == ObsInit /\ l = 1

TraceNext ==
  /\ l <= Len(Rec)
  /\ l' = l + 1
  /\ IF Rec[l].op = "run_start"
     THEN /\ oSA' = [s \in S |-> "none"] /\ oRA' = [r \in R |-> "none"]
          /\ oSLastW' = [s \in S |-> "-"] /\ oSWoken' = [s \in S |-> FALSE]
          /\ oRLastW' = [r \in R |-> "-"] /\ oRWoken' = [r \in R |-> FALSE]
          /\ oInfl' = EmptyBag(Wakers)
          /\ oSVal' = [s \in S |-> 0]
          /\ oIn' = {} /\ oOrder' = <<>> /\ oAcc' = {}
          /\ oClosed' = FALSE /\ oSenders' = 1 /\ oReceivers' = 1
          /\ bad' = {}
     ELSE ObsStep(Rec[l])

TraceSpec == TraceInit /\ [][TraceNext]_tvars

\* the whole trace was consumed
TraceAccepted ==
  LET d == TLCGet("stats").diameter IN
  IF d - 1 = Len(Rec) THEN TRUE
  ELSE Print(<<"TRACE-REJECTED at line", d, IF d <= Len(Rec) THEN Rec[d] ELSE "eof">>, FALSE)

\* error traces print only the position and the verdict (ALIAS in the cfg)
TraceAlias == [l |-> l, bad |-> bad]
=============================================================================
