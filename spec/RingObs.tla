------------------------------- MODULE RingObs -------------------------------
(***************************************************************************)
(* Abstract-data-type observer for the ring buffers of                     *)
(* src/buffer/ring_buffer.rs (ArrayBuf, FixedHeapBuf, GrowingHeapBuf):     *)
(* bounded FIFO, consistent len/is_empty/can_push/capacity, every element  *)
(* dropped exactly once.  Property C19 (and C18 for the non-growing ones). *)
(* Events: push v | pop res v | query len empty canpush cap | drop_buffer  *)
(* all carry dropped = ids whose destructor ran inside the call.           *)
(***************************************************************************)
EXTENDS Common

CONSTANTS Cap

VARIABLES oSeq, bad
obsVars == <<oSeq, bad>>
ObsInit == oSeq = <<>> /\ bad = {}

Fld(e, k, d) == IF k \in DOMAIN e THEN e[k] ELSE d

StepBad(e) ==
  LET res == Fld(e, "res", "-")
      dr == Fld(e, "dropped", <<>>)
      c19 == \/ res = "panic"
             \/ (e.op = "pop" /\ (oSeq = <<>> \/ e.v # Head(oSeq)))
             \/ (e.op = "push" /\ (Len(oSeq) >= Cap \/ InSeq(oSeq, e.v)))
             \/ (e.op = "query" /\ \/ e.len # Len(oSeq)
                                   \/ e.empty # (oSeq = <<>>)
                                   \/ e.canpush # (Len(oSeq) < Cap)
                                   \/ e.cap # Cap)
             \/ (e.op = "drop_buffer" /\ (SeqSet(dr) # SeqSet(oSeq) \/ ~NoDup(dr)))
             \/ (e.op # "drop_buffer" /\ dr # <<>>)
             \* ArrayBuf reports its raw indices: the relation proved inductive for every capacity in
             \* RingIdx.tla (Apalache) has to hold on the code, and `size` is the number of elements
             \/ ("idx" \in DOMAIN e /\ LET x == e.idx
                                            n == Len(CASE e.op = "push" -> Append(oSeq, e.v)
                                                       [] e.op = "pop" /\ oSeq # <<>> -> Tail(oSeq)
                                                       [] OTHER -> oSeq) IN
                   \/ x.size # n \/ x.size < 0 \/ x.size > Cap
                   \/ (Cap > 0 /\ (x.recv < 0 \/ x.recv >= Cap \/ x.send < 0 \/ x.send >= Cap))
                   \/ (Cap > 0 /\ x.send # x.recv + x.size /\ x.send # x.recv + x.size - Cap))
      c18 == "alloc" \in DOMAIN e /\ e.alloc # 0
  IN (IF c19 THEN {"C19"} ELSE {}) \cup (IF c18 THEN {"C18"} ELSE {})

ObsStep(e) ==
  /\ oSeq' = CASE e.op = "push" -> Append(oSeq, e.v)
               [] e.op = "pop" /\ oSeq # <<>> -> Tail(oSeq)
               [] e.op = "drop_buffer" -> <<>>
               [] OTHER -> oSeq
  /\ bad' = StepBad(e)

C19 == "C19" \notin bad
C18 == "C18" \notin bad
=============================================================================
