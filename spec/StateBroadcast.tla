---------------------------- MODULE StateBroadcast ----------------------------
(***************************************************************************)
(* Implementation-shaped model of GenericStateBroadcastChannel and its     *)
(* shared handles (src/channel/state_broadcast.rs).                        *)
(*   Send(v) Close TryRecv(id) Create(r,id) Poll(r,w) PollDone(r) Drop(r)  *)
(*   CloneSender DropSender CloneReceiver DropReceiver Destroy             *)
(* Ids a client passes in are 0 (StateId::new()) or ids some receive       *)
(* returned earlier (`known`): the only ids a client can construct.        *)
(***************************************************************************)
EXTENDS StateObs, Json

CONSTANTS MaxSid, MaxV, MaxH,
          SplitDrop   \* TRUE: the drop of a last handle is two separately scheduled steps, as in the code:
                      \* fetch_sub (Dec*), then close() (LateClose); model-level only

VARIABLES closed, sid, value, known, st, fin, want, task, q, senders, receivers, dead, evt

implVars == <<closed, sid, value, known, st, fin, want, task, q, senders, receivers, dead>>
vars == <<implVars, obsVars, evt>>

View == [closed |-> closed, sid |-> sid, hasval |-> value # 0, value |-> value, known |-> known,
         st |-> st, want |-> want, task |-> task, q |-> q, term |-> fin,
         senders |-> senders, receivers |-> receivers, dead |-> dead,
         oA |-> oA, oLastW |-> oLastW, oWoken |-> oWoken, oWant |-> oWant, oPubN |-> oPubN, oLatest |-> oLatest,
         oCurId |-> oCurId, oMaxOld |-> oMaxOld, oClosed |-> oClosed, oSenders |-> oSenders,
         oReceivers |-> oReceivers, bad |-> bad]

Consts == [K |-> K, Wk |-> SetToSortedSeq({IF w = "A" THEN 1 ELSE 2 : w \in Wk}), Shared |-> Shared,
           MaxSid |-> MaxSid, MaxV |-> MaxV, MaxH |-> MaxH, SplitDrop |-> SplitDrop]

Init == /\ closed = FALSE /\ sid = 0 /\ value = 0 /\ known = {0}
        /\ st = [f \in Slots |-> "none"] /\ fin = [f \in Slots |-> FALSE]
        /\ want = [f \in Slots |-> 0] /\ task = [f \in Slots |-> "-"] /\ q = <<>>
        /\ senders = 1 /\ receivers = 1 /\ dead = FALSE
        /\ evt = [op |-> "init"]
        /\ ObsInit

Emit(e) ==
  LET full == e @@ [term |-> SetToSortedSeq({f \in Slots : fin'[f]}),
                    closed |-> closed', q |-> q', nst |-> st']
  IN evt' = full /\ ObsStep(full)

WakeAll == [st |-> [f \in Slots |-> IF InSeq(q, f) THEN "unreg" ELSE st[f]],
            task |-> [f \in Slots |-> IF InSeq(q, f) THEN "-" ELSE task[f]],
            wakes |-> [i \in 1..Len(q) |-> <<q[i], task[q[i]]>>]]
NoWakes == [st |-> st, task |-> task, wakes |-> <<>>]

Send(v) ==
  /\ (Shared => senders > 0)
  /\ IF closed
     THEN UNCHANGED implVars /\ Emit([op |-> "send", v |-> v, res |-> "err", rv |-> v, wakes |-> <<>>])
     ELSE /\ sid < MaxSid
          /\ LET x == WakeAll IN
             /\ value' = v /\ sid' = sid + 1 /\ st' = x.st /\ task' = x.task /\ q' = <<>>
             /\ UNCHANGED <<closed, known, fin, want, senders, receivers, dead>>
             /\ Emit([op |-> "send", v |-> v, res |-> "ok", rv |-> 0, wakes |-> x.wakes])

CloseCore(opname, must) ==
  IF closed \/ ~must
  THEN /\ UNCHANGED <<closed, sid, value, known, st, fin, want, task, q, dead>>
       /\ Emit(IF opname = "close" THEN [op |-> opname, res |-> "already", wakes |-> <<>>]
               ELSE [op |-> opname, wakes |-> <<>>])
  ELSE LET x == WakeAll IN
       /\ closed' = TRUE /\ st' = x.st /\ task' = x.task /\ q' = <<>>
       /\ UNCHANGED <<sid, value, known, fin, want, dead>>
       /\ Emit(IF opname = "close" THEN [op |-> opname, res |-> "newly", wakes |-> x.wakes]
               ELSE [op |-> opname, wakes |-> x.wakes])

Close == ~Shared /\ UNCHANGED <<senders, receivers>> /\ CloseCore("close", TRUE)

TryRecv(id) ==
  /\ id \in known /\ (Shared => receivers > 0)
  /\ IF value # 0 /\ id < sid
     THEN /\ known' = known \cup {sid}
          /\ UNCHANGED <<closed, sid, value, st, fin, want, task, q, senders, receivers, dead>>
          /\ Emit([op |-> "try_recv", id |-> id, res |-> "some", sid |-> sid, v |-> value])
     ELSE /\ UNCHANGED implVars
          /\ Emit([op |-> "try_recv", id |-> id, res |-> "none", sid |-> 0, v |-> 0])

Create(r, id) ==
  /\ st[r] = "none" /\ \A g \in Slots : g < r => st[g] # "none"
  /\ id \in known /\ (Shared => receivers > 0)
  /\ st' = [st EXCEPT ![r] = "unreg"] /\ want' = [want EXCEPT ![r] = id]
  /\ UNCHANGED <<closed, sid, value, known, fin, task, q, senders, receivers, dead>>
  /\ Emit([op |-> "create", r |-> r, id |-> id])

Poll(r, w) ==
  /\ st[r] # "none" /\ ~fin[r]
  /\ IF st[r] = "reg"
     THEN /\ task' = [task EXCEPT ![r] = w]
          /\ UNCHANGED <<closed, sid, value, known, st, fin, want, q, senders, receivers, dead>>
          /\ Emit([op |-> "poll", r |-> r, w |-> w, res |-> "pending", sid |-> 0, v |-> 0])
     ELSE IF value # 0 /\ want[r] < sid
     THEN /\ fin' = [fin EXCEPT ![r] = TRUE] /\ known' = known \cup {sid}
          /\ UNCHANGED <<closed, sid, value, st, want, task, q, senders, receivers, dead>>
          /\ Emit([op |-> "poll", r |-> r, w |-> w, res |-> "some", sid |-> sid, v |-> value])
     ELSE IF closed
     THEN /\ fin' = [fin EXCEPT ![r] = TRUE]
          /\ UNCHANGED <<closed, sid, value, known, st, want, task, q, senders, receivers, dead>>
          /\ Emit([op |-> "poll", r |-> r, w |-> w, res |-> "none", sid |-> 0, v |-> 0])
     ELSE /\ task' = [task EXCEPT ![r] = w] /\ st' = [st EXCEPT ![r] = "reg"] /\ q' = Append(q, r)
          /\ UNCHANGED <<closed, sid, value, known, fin, want, senders, receivers, dead>>
          /\ Emit([op |-> "poll", r |-> r, w |-> w, res |-> "pending", sid |-> 0, v |-> 0])

PollDone(r) ==
  /\ st[r] # "none" /\ fin[r]
  /\ UNCHANGED implVars
  /\ Emit([op |-> "poll_done", r |-> r, res |-> "panic"])

Drop(r) ==
  /\ st[r] # "none"
  /\ st' = [st EXCEPT ![r] = "none"] /\ fin' = [fin EXCEPT ![r] = FALSE]
  /\ task' = [task EXCEPT ![r] = "-"] /\ want' = [want EXCEPT ![r] = 0] /\ q' = Rm(q, r)
  /\ UNCHANGED <<closed, sid, value, known, senders, receivers, dead>>
  /\ Emit([op |-> "drop", r |-> r])

CloneSender ==
  /\ Shared /\ senders > 0 /\ senders < MaxH
  /\ senders' = senders + 1
  /\ UNCHANGED <<closed, sid, value, known, st, fin, want, task, q, receivers, dead>>
  /\ Emit([op |-> "clone_sender"])
DropSender ==
  /\ Shared /\ ~SplitDrop /\ senders > 0
  /\ senders' = senders - 1 /\ UNCHANGED receivers
  /\ CloseCore("drop_sender", senders = 1)
CloneReceiver ==
  /\ Shared /\ receivers > 0 /\ receivers < MaxH
  /\ receivers' = receivers + 1
  /\ UNCHANGED <<closed, sid, value, known, st, fin, want, task, q, senders, dead>>
  /\ Emit([op |-> "clone_receiver"])
DropReceiver ==
  /\ Shared /\ ~SplitDrop /\ receivers > 0
  /\ receivers' = receivers - 1 /\ UNCHANGED senders
  /\ CloseCore("drop_receiver", receivers = 1)

(* ----- the last-handle drop as the code really performs it ----------------
   GenericStateSender::drop / GenericStateReceiver::drop: fetch_sub; if it was the last: close().
   Between the two steps other threads run.  A pending close() is encoded as count = -1.        *)
DecSender ==
  /\ Shared /\ SplitDrop /\ senders > 0
  /\ senders' = IF senders = 1 THEN 0 - 1 ELSE senders - 1
  /\ UNCHANGED <<closed, sid, value, known, st, fin, want, task, q, receivers, dead>>
  /\ Emit([op |-> "dec_sender"])
DecReceiver ==
  /\ Shared /\ SplitDrop /\ receivers > 0
  /\ receivers' = IF receivers = 1 THEN 0 - 1 ELSE receivers - 1
  /\ UNCHANGED <<closed, sid, value, known, st, fin, want, task, q, senders, dead>>
  /\ Emit([op |-> "dec_receiver"])
LateClose(side) ==
  /\ Shared /\ SplitDrop
  /\ IF side = "s" THEN senders = 0 - 1 /\ senders' = 0 /\ UNCHANGED receivers
                   ELSE receivers = 0 - 1 /\ receivers' = 0 /\ UNCHANGED senders
  /\ CloseCore("late_close", TRUE)

Destroy ==
  /\ \A r \in Slots : st[r] = "none"
  /\ (Shared => senders = 0 /\ receivers = 0)
  /\ dead' = TRUE /\ value' = 0
  /\ UNCHANGED <<closed, sid, known, st, fin, want, task, q, senders, receivers>>
  /\ Emit([op |-> "destroy"])

Next == /\ ~dead
        /\ \/ \E v \in 1..MaxV : Send(v)
           \/ Close
           \/ \E id \in 0..MaxSid : TryRecv(id)
           \/ \E r \in Slots : \/ \E id \in 0..MaxSid : Create(r, id)
                               \/ Drop(r) \/ PollDone(r) \/ \E w \in Wk : Poll(r, w)
           \/ CloneSender \/ DropSender \/ CloneReceiver \/ DropReceiver \/ Destroy
           \/ DecSender \/ DecReceiver \/ LateClose("s") \/ LateClose("r")

Spec == Init /\ [][Next]_vars

TypeOK == /\ closed \in BOOLEAN /\ sid \in 0..MaxSid /\ value \in 0..MaxV
          /\ st \in [Slots -> {"none", "unreg", "reg"}]
QueueOK == /\ NoDup(q)
           /\ \A f \in Slots : InSeq(q, f) <=> st[f] = "reg"
           /\ \A f \in Slots : st[f] = "reg" => task[f] # "-" /\ want[f] >= sid
           /\ closed => q = <<>>
           /\ (dead \/ ((value # 0) = (sid > 0)))
Refines == /\ closed = oClosed
           /\ (IF senders < 0 THEN 0 ELSE senders) = oSenders
           /\ (IF receivers < 0 THEN 0 ELSE receivers) = oReceivers
           /\ sid = oPubN /\ (~dead => value = oLatest)
           /\ oCurId \in {0, sid} /\ (oMaxOld < sid \/ sid = 0)
           /\ \A f \in Slots : /\ (oA[f] = "none") = (st[f] = "none")
                               /\ (oA[f] = "done") = fin[f]
                               /\ st[f] # "none" => want[f] = oWant[f]

EdgeOut == PrintT(<<"EDGE", ToJson([src |-> View, evt |-> evt', dst |-> View'])>>)
ASSUME PrintT(<<"CONST", ToJson(Consts)>>)
=============================================================================
