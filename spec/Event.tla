-------------------------------- MODULE Event --------------------------------
(***************************************************************************)
(* Implementation-shaped model of GenericManualResetEvent                  *)
(* (src/sync/manual_reset_event.rs).                                       *)
(*   Create(f)   wait()                                                    *)
(*   Poll(f,w)   WaitForEventFuture::poll -> EventState::try_wait          *)
(*   PollDone(f) poll after completion -> panics                           *)
(*   Drop(f)     WaitForEventFuture::drop -> remove_waiter                 *)
(*   Set         set(): reverse_drain, wake inside the lock, nodes -> Done *)
(*   Reset       reset()                                                   *)
(*   IsSet       is_set()                                                  *)
(* st is the node's PollState (Done is reached by set() *or* by a Ready    *)
(* poll); fin is the future's own "event == None" flag (is_terminated).    *)
(***************************************************************************)
EXTENDS EventObs, Json

VARIABLES isSet, st, fin, task, q, evt

implVars == <<isSet, st, fin, task, q>>
vars == <<implVars, obsVars, evt>>

View == [isSet |-> isSet, st |-> st, task |-> task, q |-> q,
         term |-> fin, pub |-> [is_set |-> isSet],
         oA |-> oA, oLastW |-> oLastW, oWoken |-> oWoken, oLatched |-> oLatched, oSet |-> oSet, bad |-> bad]

Consts == [K |-> K, Wk |-> SetToSortedSeq({IF w = "A" THEN 1 ELSE 2 : w \in Wk}), InitSet |-> InitSet]

Init == /\ isSet = InitSet
        /\ st = [f \in Slots |-> "none"]
        /\ fin = [f \in Slots |-> FALSE]
        /\ task = [f \in Slots |-> "-"]
        /\ q = <<>>
        /\ evt = [op |-> "init"]
        /\ ObsInit

Emit(e) ==
  LET full == e @@ [term |-> SetToSortedSeq({f \in Slots : fin'[f]}),
                    pub |-> [is_set |-> isSet'],
                    q |-> q', nst |-> st']
  IN evt' = full /\ ObsStep(full)

Create(f) ==
  /\ st[f] = "none" /\ \A g \in Slots : g < f => st[g] # "none"
  /\ st' = [st EXCEPT ![f] = "new"]
  /\ UNCHANGED <<isSet, fin, task, q>>
  /\ Emit([op |-> "create", f |-> f])

Poll(f, w) ==
  /\ st[f] # "none" /\ ~fin[f]
  /\ CASE st[f] = "new" ->
            IF isSet
            THEN /\ st' = [st EXCEPT ![f] = "done"] /\ fin' = [fin EXCEPT ![f] = TRUE]
                 /\ UNCHANGED <<isSet, task, q>>
                 /\ Emit([op |-> "poll", f |-> f, w |-> w, res |-> "ready"])
            ELSE /\ st' = [st EXCEPT ![f] = "waiting"] /\ task' = [task EXCEPT ![f] = w] /\ q' = Append(q, f)
                 /\ UNCHANGED <<isSet, fin>>
                 /\ Emit([op |-> "poll", f |-> f, w |-> w, res |-> "pending"])
       [] st[f] = "waiting" ->
            /\ task' = [task EXCEPT ![f] = w]
            /\ UNCHANGED <<isSet, st, fin, q>>
            /\ Emit([op |-> "poll", f |-> f, w |-> w, res |-> "pending"])
       [] st[f] = "done" ->   \* woken by set(); completes even if reset() came in between
            /\ fin' = [fin EXCEPT ![f] = TRUE]
            /\ UNCHANGED <<isSet, st, task, q>>
            /\ Emit([op |-> "poll", f |-> f, w |-> w, res |-> "ready"])

PollDone(f) ==
  /\ st[f] # "none" /\ fin[f]
  /\ UNCHANGED implVars
  /\ Emit([op |-> "poll_done", f |-> f, res |-> "panic"])

Drop(f) ==
  /\ st[f] # "none"
  /\ st' = [st EXCEPT ![f] = "none"] /\ fin' = [fin EXCEPT ![f] = FALSE]
  /\ task' = [task EXCEPT ![f] = "-"] /\ q' = Rm(q, f)
  /\ UNCHANGED isSet
  /\ Emit([op |-> "drop", f |-> f])

Set ==
  IF isSet THEN UNCHANGED implVars /\ Emit([op |-> "set", wakes |-> <<>>])
  ELSE /\ isSet' = TRUE
       /\ st' = [f \in Slots |-> IF InSeq(q, f) THEN "done" ELSE st[f]]
       /\ task' = [f \in Slots |-> IF InSeq(q, f) THEN "-" ELSE task[f]]
       /\ q' = <<>>
       /\ UNCHANGED fin
       \* oldest waiter first (reverse_drain)
       /\ Emit([op |-> "set", wakes |-> [i \in 1..Len(q) |-> <<q[i], task[q[i]]>>]])

Reset == /\ isSet' = FALSE /\ UNCHANGED <<st, fin, task, q>>
         /\ Emit([op |-> "reset", wakes |-> <<>>])

IsSet == UNCHANGED implVars /\ Emit([op |-> "is_set", res |-> IF isSet THEN "true" ELSE "false"])

Next == \/ \E f \in Slots : Create(f) \/ Drop(f) \/ PollDone(f) \/ \E w \in Wk : Poll(f, w)
        \/ Set \/ Reset \/ IsSet

Spec == Init /\ [][Next]_vars

TypeOK == /\ isSet \in BOOLEAN
          /\ st \in [Slots -> {"none", "new", "waiting", "done"}]
          /\ task \in [Slots -> Wk \cup {"-"}]
QueueOK == /\ NoDup(q)
           /\ \A f \in Slots : InSeq(q, f) <=> st[f] = "waiting"
           /\ \A f \in Slots : st[f] = "waiting" => task[f] # "-"
           /\ isSet => q = <<>>
Refines == /\ isSet = oSet
           /\ \A f \in Slots : /\ (oA[f] = "none") = (st[f] = "none")
                               /\ (oA[f] = "new") = (st[f] = "new")
                               /\ (oA[f] = "pending") = (st[f] = "waiting" \/ (st[f] = "done" /\ ~fin[f]))
                               /\ (oA[f] = "done") = fin[f]
                               /\ (st[f] = "done" /\ ~fin[f]) = (oA[f] = "pending" /\ oLatched[f])

EdgeOut == PrintT(<<"EDGE", ToJson([src |-> View, evt |-> evt', dst |-> View'])>>)
ASSUME PrintT(<<"CONST", ToJson(Consts)>>)
=============================================================================
