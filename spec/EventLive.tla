------------------------------ MODULE EventLive ------------------------------
(***************************************************************************)
(* Liveness half of C14: a closed system of K tasks that wait on the event *)
(* the way an executor does -- task t creates a wait future, polls it,     *)
(* parks when Pending and polls again only after it has been woken through *)
(* the waker of its latest poll; a setter keeps setting, a resetter resets *)
(* finitely often.  The actions are the ones of Event.tla (the critical    *)
(* sections the edge tours bind to the code).                              *)
(*   Latched  : a task that was parked when set() ran completes, whatever  *)
(*              resets follow (needs only: a woken task polls)             *)
(*   Progress : with the setter running, every parked task completes       *)
(***************************************************************************)
EXTENDS Event

CONSTANT MaxResets

VARIABLES pc,     \* task -> "idle" | "polling" | "parked" | "cleanup"
          nr      \* resets so far
lvars == <<vars, pc, nr>>

LInit == Init /\ pc = [t \in Slots |-> "idle"] /\ nr = 0

Start(t) == /\ pc[t] = "idle" /\ st[t] = "none"
            /\ st' = [st EXCEPT ![t] = "new"] /\ UNCHANGED <<isSet, fin, task, q>>
            /\ Emit([op |-> "create", f |-> t])
            /\ pc' = [pc EXCEPT ![t] = "polling"] /\ UNCHANGED nr
PollT(t) == /\ pc[t] = "polling" \/ (pc[t] = "parked" /\ oWoken[t])
            /\ Poll(t, "A")
            /\ pc' = [pc EXCEPT ![t] = IF evt'.res = "ready" THEN "cleanup" ELSE "parked"]
            /\ UNCHANGED nr
Cleanup(t) == pc[t] = "cleanup" /\ Drop(t) /\ pc' = [pc EXCEPT ![t] = "idle"] /\ UNCHANGED nr
SetL == Set /\ UNCHANGED <<pc, nr>>
ResetL == nr < MaxResets /\ Reset /\ nr' = nr + 1 /\ UNCHANGED pc

LNext == \/ \E t \in Slots : Start(t) \/ PollT(t) \/ Cleanup(t)
         \/ SetL \/ ResetL

\* only "a woken task polls" and "a finished task cleans up" are assumed for Latched
LiveSpec == /\ LInit /\ [][LNext]_lvars
            /\ \A t \in Slots : WF_lvars(PollT(t)) /\ WF_lvars(Cleanup(t))
\* Progress additionally needs the setter to keep running
LiveSpecSet == LiveSpec /\ WF_lvars(SetL)

Parked(t) == pc[t] = "parked"
Latched == \A t \in Slots : (Parked(t) /\ oLatched[t]) ~> ~Parked(t)
Progress == \A t \in Slots : Parked(t) ~> ~Parked(t)
=============================================================================
