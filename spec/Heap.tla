--------------------------------- MODULE Heap ---------------------------------
(***************************************************************************)
(* Link-level model of PairingHeap / HeapNode driven directly (insert,     *)
(* remove of any member, peek_min; keys chosen at insertion, re-insertion  *)
(* allowed), using the transcription in PairingHeapOps.                    *)
(***************************************************************************)
EXTENDS HeapObs, Json

CONSTANTS Keys

VARIABLES heap, key, evt
implVars == <<heap, key>>
vars == <<implVars, obsVars, evt>>

View == [root |-> heap.root, parent |-> heap.parent, prev |-> heap.prev, next |-> heap.next, child |-> heap.child,
         key |-> key, oMem |-> oMem, oKey |-> oKey, bad |-> bad]
Consts == [N |-> N, Keys |-> SetToSortedSeq(Keys)]

Init == heap = EmptyHeap(N) /\ key = [n \in Nodes |-> 0] /\ evt = [op |-> "init"] /\ ObsInit

Emit(e) == LET full == e @@ [root |-> heap'.root, parent |-> heap'.parent, prev |-> heap'.prev,
                             next |-> heap'.next, child |-> heap'.child]
           IN evt' = full /\ ObsStep(full)

Insert(n, k) ==
  /\ n \notin Members(heap, N)
  /\ key' = [key EXCEPT ![n] = k]
  /\ heap' = HInsert(heap, n, [key EXCEPT ![n] = k])
  /\ Emit([op |-> "insert", n |-> n, k |-> k])

Remove(n) ==
  /\ n \in Members(heap, N)
  /\ heap' = HRemove(heap, n, key) /\ UNCHANGED key
  /\ Emit([op |-> "remove", n |-> n])

PeekMin == UNCHANGED implVars
           /\ Emit([op |-> "peek_min", res |-> IF heap.root = 0 THEN "none" ELSE "some", n |-> heap.root])

Next == \/ \E n \in Nodes : (\E k \in Keys : Insert(n, k)) \/ Remove(n)
        \/ PeekMin
Spec == Init /\ [][Next]_vars

QueueOK == HeapLinksOK(heap, N, key) /\ Members(heap, N) = oMem
EdgeOut == PrintT(<<"EDGE", ToJson([src |-> View, evt |-> evt', dst |-> View'])>>)
ASSUME PrintT(<<"CONST", ToJson(Consts)>>)
=============================================================================
