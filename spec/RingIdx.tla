------------------------------- MODULE RingIdx -------------------------------
(***************************************************************************)
(* The index arithmetic of ArrayBuf (src/buffer/ring_buffer.rs: send_idx,  *)
(* recv_idx, size, next_idx) for an ARBITRARY capacity.  RingBuf.tla checks*)
(* the same arithmetic together with the contents for capacities 0..4 with *)
(* TLC; this module drops the contents and proves with Apalache that       *)
(*   IndInv  (indices in range, size in range, send = recv + size mod Cap) *)
(* is an inductive invariant for every Cap >= 1 (Cap is a symbolic         *)
(* constant; the invariant is stated without `%` so that the SMT problem   *)
(* stays linear):                                                          *)
(*   apalache-mc check --cinit=ConstInit --init=Init    --inv=Safe  --length=0 RingIdx.tla *)
(*   apalache-mc check --cinit=ConstInit --init=IndInit --inv=Safe  --length=1 RingIdx.tla *)
(* The code is bound to these indices through the hook                     *)
(* ArrayBuf::verif_indices (compared after every replayed step).           *)
(***************************************************************************)
EXTENDS Integers

CONSTANT
  \* @type: Int;
  Cap

VARIABLES
  \* @type: Int;
  sendIdx,
  \* @type: Int;
  recvIdx,
  \* @type: Int;
  size

\* @type: <<Int, Int, Int>>;
vars == <<sendIdx, recvIdx, size>>

ConstInit == Cap \in Int /\ Cap >= 1

NextIdx(i) == IF i + 1 = Cap THEN 0 ELSE i + 1

Init == sendIdx = 0 /\ recvIdx = 0 /\ size = 0

\* can_push() is size != capacity
Push == /\ size # Cap
        /\ sendIdx' = NextIdx(sendIdx) /\ size' = size + 1 /\ UNCHANGED recvIdx
Pop == /\ size > 0
       /\ recvIdx' = NextIdx(recvIdx) /\ size' = size - 1 /\ UNCHANGED sendIdx
Next == Push \/ Pop \/ UNCHANGED vars

IndInv == /\ size >= 0 /\ size <= Cap
          /\ recvIdx >= 0 /\ recvIdx < Cap
          /\ sendIdx >= 0 /\ sendIdx < Cap
          /\ (sendIdx = recvIdx + size \/ sendIdx = recvIdx + size - Cap)

\* an arbitrary state satisfying the invariant (initial predicate of the inductive step)
IndInit == sendIdx \in Int /\ recvIdx \in Int /\ size \in Int /\ IndInv

\* consequences the ring buffer relies on
NeverOverwrites == size = Cap => sendIdx = recvIdx     \* full: the next push slot is the oldest element (push is refused)
EmptyMeansEqual == size = 0 => sendIdx = recvIdx
Safe == IndInv /\ NeverOverwrites /\ EmptyMeansEqual
=============================================================================
