-------------------------------- MODULE Mutex --------------------------------
(***************************************************************************)
(* Implementation-shaped model of futures_intrusive::sync::GenericMutex    *)
(* (src/sync/mutex.rs).  One action per critical section of the code:      *)
(*                                                                         *)
(*   Create(f)        GenericMutex::lock()           (no lock taken)       *)
(*   Poll(f, w)       GenericMutexLockFuture::poll   -> MutexState::try_lock*)
(*   PollDone(f)      poll after completion          -> panics, no change  *)
(*   Drop(f)          GenericMutexLockFuture::drop   -> remove_waiter      *)
(*   TryLock          GenericMutex::try_lock         -> try_lock_sync      *)
(*   DropGuard        GenericMutexGuard::drop        -> unlock             *)
(*   IsLocked         GenericMutex::is_locked                              *)
(*   Deliver(w)       Waker::wake() of a waker that was *taken* under the  *)
(*                    lock (unlock / remove_waiter) and is invoked after   *)
(*                    the lock has been released.                          *)
(*                                                                         *)
(* State = exactly the fields of MutexState and of every live future's     *)
(* WaitQueueEntry: locked, q (waiters, oldest first), st (PollState),      *)
(* task (stored waker).  Future objects live in numbered slots that are    *)
(* recycled, so histories are unbounded while the state space is finite.   *)
(* The client-level observer (MutexObs) is conjoined to every action.      *)
(***************************************************************************)
EXTENDS MutexObs, Json

CONSTANTS SeqMode,      \* TRUE: taken wakers are delivered before the next call
          MaxInflight,  \* bound on taken-but-undelivered wakers (concurrent mode)
          MaxGuardsM    \* model bound on simultaneously live guards (for mutants)

VARIABLES locked,  \* MutexState::is_locked
          st,      \* slot -> "none" | "new" | "waiting" | "notified" | "done"
          task,    \* slot -> stored waker variant, "-" = None
          q,       \* MutexState::waiters, oldest first
          evt      \* the event emitted by the latest action (prediction)

implVars == <<locked, st, task, q>>
vars == <<implVars, obsVars, evt>>

View == [locked |-> locked, st |-> st, task |-> task, q |-> q,
         term |-> [f \in Slots |-> st[f] = "done"],
         pub |-> [is_locked |-> locked],
         oA |-> oA, oLastW |-> oLastW, oWoken |-> oWoken, oInfl |-> oInfl,
         oG |-> oG, oOrd |-> oOrd, bad |-> bad]

Consts == [K |-> K, Fair |-> Fair, Wk |-> SetToSortedSeq({IF w = "A" THEN 1 ELSE 2 : w \in Wk}),
           SeqMode |-> SeqMode, MaxInflight |-> MaxInflight]

Init == /\ locked = FALSE
        /\ st = [f \in Slots |-> "none"]
        /\ task = [f \in Slots |-> "-"]
        /\ q = <<>>
        /\ evt = [op |-> "init"]
        /\ ObsInit

(* what the harness observes after every step, derived from the new state *)
Emit(e) ==
  LET full == e @@ [term |-> SetToSortedSeq({f \in Slots : st'[f] = "done"}),
                    pub |-> [is_locked |-> locked'],
                    q |-> q', nst |-> st']
  IN evt' = full /\ ObsStep(full)

(* MutexState::return_last_waiter on (s, t, qq): [st, task, q, w] *)
RLW(s, t, qq) ==
  IF qq = <<>> THEN [st |-> s, task |-> t, q |-> qq, w |-> <<>>]
  ELSE LET h == Head(qq) IN
       [st |-> [s EXCEPT ![h] = "notified"], task |-> [t EXCEPT ![h] = "-"],
        q |-> IF Fair THEN qq ELSE Tail(qq),
        w |-> IF t[h] = "-" THEN <<>> ELSE << <<h, t[h]>> >>]

TrySync == ~locked /\ (~Fair \/ q = <<>>)

Create(f) ==
  /\ st[f] = "none" /\ \A g \in Slots : g < f => st[g] # "none"
  /\ st' = [st EXCEPT ![f] = "new"]
  /\ UNCHANGED <<locked, task, q>>
  /\ Emit([op |-> "create", f |-> f])

\* update_waker_ref: the stored waker is replaced unless it will_wake the new one
Upd(t, f, w) == [t EXCEPT ![f] = w]

Poll(f, w) ==
  /\ st[f] \in {"new", "waiting", "notified"}
  /\ LET r ==
       CASE st[f] = "new" ->
              IF TrySync
              THEN [locked |-> TRUE, st |-> [st EXCEPT ![f] = "done"], task |-> task, q |-> q, res |-> "ready"]
              ELSE [locked |-> locked, st |-> [st EXCEPT ![f] = "waiting"], task |-> Upd(task, f, w),
                    q |-> Append(q, f), res |-> "pending"]
         [] st[f] = "waiting" ->
              IF ~Fair /\ ~locked
              THEN [locked |-> TRUE, st |-> [st EXCEPT ![f] = "done"], task |-> task, q |-> Rm(q, f), res |-> "ready"]
              ELSE [locked |-> locked, st |-> st, task |-> Upd(task, f, w), q |-> q, res |-> "pending"]
         [] st[f] = "notified" ->
              IF ~locked
              THEN [locked |-> TRUE, st |-> [st EXCEPT ![f] = "done"], task |-> task,
                    q |-> IF Fair THEN Rm(q, f) ELSE q, res |-> "ready"]
              ELSE \* unfair only (debug_assert!(!is_fair)); re-queue as the newest waiter
                   [locked |-> locked, st |-> [st EXCEPT ![f] = "waiting"], task |-> Upd(task, f, w),
                    q |-> Append(q, f), res |-> "pending"]
     IN /\ locked' = r.locked /\ st' = r.st /\ task' = r.task /\ q' = r.q
        /\ Emit([op |-> "poll", f |-> f, w |-> w, res |-> r.res, taken |-> <<>>])

PollDone(f) ==
  /\ st[f] = "done"
  /\ UNCHANGED implVars
  /\ Emit([op |-> "poll_done", f |-> f, res |-> "panic"])

Drop(f) ==
  /\ st[f] # "none"
  /\ LET r ==
       CASE st[f] = "notified" ->
              RLW(st, task, IF Fair THEN Rm(q, f) ELSE q)
         [] st[f] = "waiting" -> [st |-> st, task |-> task, q |-> Rm(q, f), w |-> <<>>]
         [] OTHER -> [st |-> st, task |-> task, q |-> q, w |-> <<>>]
     IN /\ st' = [r.st EXCEPT ![f] = "none"] /\ task' = [r.task EXCEPT ![f] = "-"] /\ q' = r.q
        /\ UNCHANGED locked
        /\ Emit([op |-> "drop", f |-> f, taken |-> r.w])

TryLock ==
  /\ oG < MaxGuardsM
  /\ IF TrySync
     THEN locked' = TRUE /\ UNCHANGED <<st, task, q>> /\ Emit([op |-> "try_lock", res |-> "some"])
     ELSE UNCHANGED implVars /\ Emit([op |-> "try_lock", res |-> "none"])

DropGuard ==
  /\ oG > 0
  /\ LET r == IF locked THEN RLW(st, task, q) ELSE [st |-> st, task |-> task, q |-> q, w |-> <<>>]
     IN /\ locked' = FALSE /\ st' = r.st /\ task' = r.task /\ q' = r.q
        /\ Emit([op |-> "drop_guard", taken |-> r.w])

IsLocked == UNCHANGED implVars /\ Emit([op |-> "is_locked", res |-> IF locked THEN "true" ELSE "false"])

Deliver(w) ==
  /\ BagIn(oInfl, w)
  /\ UNCHANGED implVars
  /\ Emit([op |-> "wake", w |-> w])

Ops == \/ \E f \in Slots : Create(f) \/ Drop(f) \/ PollDone(f) \/ \E w \in Wk : Poll(f, w)
       \/ TryLock \/ DropGuard \/ IsLocked

Next == IF SeqMode /\ BagSize(oInfl) > 0
        THEN \E w \in Wakers : Deliver(w)
        ELSE Ops \/ \E w \in Wakers : Deliver(w)

Spec == Init /\ [][Next]_vars

Bound == BagSize(oInfl) <= MaxInflight

(* ----- structural invariants of the implementation-shaped state -------- *)
TypeOK == /\ locked \in BOOLEAN
          /\ st \in [Slots -> {"none", "new", "waiting", "notified", "done"}]
          /\ task \in [Slots -> Wk \cup {"-"}]
          /\ SeqSet(q) \subseteq Slots

QueueOK == /\ NoDup(q)
           /\ \A f \in Slots : InSeq(q, f) <=> (st[f] = "waiting" \/ (Fair /\ st[f] = "notified"))
           /\ \A f \in Slots : st[f] = "waiting" => task[f] # "-"

\* the model agrees with the client-level ghost state
Refines == /\ locked = (oG > 0)
           /\ \A f \in Slots : /\ (oA[f] = "none") = (st[f] = "none")
                               /\ (oA[f] = "new") = (st[f] = "new")
                               /\ (oA[f] = "pending") = (st[f] \in {"waiting", "notified"})
                               /\ (oA[f] = "done") = (st[f] = "done")

(* ----- edge export for conformance tours -------------------------------- *)
EdgeOut == PrintT(<<"EDGE", ToJson([src |-> View, evt |-> evt', dst |-> View'])>>)
ASSUME PrintT(<<"CONST", ToJson(Consts)>>)
=============================================================================
