------------------------------ MODULE TimerObs ------------------------------
(***************************************************************************)
(* Client-level observer for GenericTimerService (src/timer/timer.rs) with *)
(* a clock controlled by the client.  Properties C01, C15, C17, C18.       *)
(*                                                                         *)
(* Events (all carry term, pub=[next] (next_expiration, -1 = None), q (the *)
(* slots of the nodes in the timer heap, sorted), nst, alloc):             *)
(*   set_clock t | create f t | delay f d val (val = resulting deadline)   *)
(*   poll f w res | poll_done f res | drop f | check wakes                 *)
(*   next_exp res val                                                      *)
(* Timestamps above INF are reported as INF by the harness (u64 values do  *)
(* not fit TLC integers); delay saturates at u64::MAX = INF.               *)
(***************************************************************************)
EXTENDS Common

CONSTANTS K, Wk

Slots == 1..K
INF == 2000000000

VARIABLES oA,       \* slot -> "none" | "new" | "pending" | "done"
          oLastW, oWoken,
          oDl,      \* slot -> deadline
          oNow,     \* the clock
          oExp,     \* slot -> a check_expirations() observed now >= deadline while it was pending
          bad

obsVars == <<oA, oLastW, oWoken, oDl, oNow, oExp, bad>>

ObsInit == /\ oA = [f \in Slots |-> "none"]
           /\ oLastW = [f \in Slots |-> "-"]
           /\ oWoken = [f \in Slots |-> FALSE]
           /\ oDl = [f \in Slots |-> 0]
           /\ oNow = 0
           /\ oExp = [f \in Slots |-> FALSE]
           /\ bad = {}

OPending == {f \in Slots : oA[f] = "pending"}
\* registered, not yet expired, not dropped
Registered(A, X) == {f \in Slots : A[f] = "pending" /\ ~X[f]}
Wakes(e) == IF "wakes" \in DOMAIN e THEN e.wakes ELSE <<>>
MinOf(S) == CHOOSE x \in S : \A y \in S : x <= y

QueueCheck(e, A, X) ==
  "q" \in DOMAIN e =>
  /\ NoDup(e.q)
  /\ SeqSet(e.q) = Registered(A, X)
  /\ \A f \in Slots : (A[f] = "none") <=> (e.nst[f] = "none")

StepBad(e, A, X) ==
  LET due == {f \in Slots : oA[f] = "pending" /\ ~oExp[f] /\ oDl[f] <= oNow}
      \* wakers taken under the lock and invoked after it (`taken`) count like in-lock wake-ups
      ws == Wakes(e) \o (IF "taken" \in DOMAIN e THEN e.taken ELSE <<>>)
      reg == Registered(A, X)
      c01 == \/ (e.op # "poll_done" /\ "res" \in DOMAIN e /\ e.res = "panic")
             \/ ~QueueCheck(e, A, X)
      c15 == \* never early, nothing due missed
             \/ (e.op = "poll" /\ e.res \in {"ready", "pending"} /\
                   (e.res = "ready") # (IF oA[e.f] = "new" THEN oNow >= oDl[e.f] ELSE oExp[e.f]))
             \* check_expirations wakes all and only the due registered futures, by deadline
             \/ (e.op = "check" /\
                   \/ SeqSet(ws) # {<<f, oLastW[f]>> : f \in due}
                   \/ ~NoDup(ws)
                   \/ \E i \in 1..Len(ws) : \E j \in 1..Len(ws) : i < j /\ oDl[ws[i][1]] > oDl[ws[j][1]])
             \/ (e.op # "check" /\ ws # <<>>)
             \/ (e.op = "next_exp" /\
                   IF reg = {} THEN e.res # "none"
                   ELSE e.res # "some" \/ e.val # MinOf({oDl[f] : f \in reg}))
             \/ ("pub" \in DOMAIN e /\ e.pub.next # (IF reg = {} THEN 0 - 1 ELSE MinOf({oDl[f] : f \in reg})))
             \* a delay() that panics (no `val`) has not produced the saturated deadline either
             \/ (e.op = "delay" /\ ("val" \notin DOMAIN e \/ e.val # (IF oNow + e.d >= INF THEN INF ELSE oNow + e.d)))
      c17 == \/ ("term" \in DOMAIN e /\ e.term # SetToSortedSeq({f \in Slots : A[f] = "done"}))
             \* threaded runs report is_terminated() of the polled future only
             \/ ("fterm" \in DOMAIN e /\ e.op = "poll" /\ e.fterm # (A[e.f] = "done"))
             \/ (e.op = "poll_done" /\ e.res # "panic")
      c18 == "alloc" \in DOMAIN e /\ e.alloc # 0
  IN (IF c01 THEN {"C01"} ELSE {}) \cup (IF c15 THEN {"C15"} ELSE {})
     \cup (IF c17 THEN {"C17"} ELSE {}) \cup (IF c18 THEN {"C18"} ELSE {})

ObsStep(e) ==
  LET A == CASE e.op \in {"create", "delay"} -> [oA EXCEPT ![e.f] = "new"]
             [] e.op = "poll" -> [oA EXCEPT ![e.f] = IF e.res = "ready" THEN "done"
                                                     ELSE IF e.res = "pending" THEN "pending" ELSE @]
             [] e.op = "drop" -> [oA EXCEPT ![e.f] = "none"]
             [] OTHER -> oA
      X == CASE e.op = "check" -> [f \in Slots |-> oExp[f] \/ (oA[f] = "pending" /\ oDl[f] <= oNow)]
             [] e.op \in {"create", "delay", "drop"} -> [oExp EXCEPT ![e.f] = FALSE]
             [] OTHER -> oExp
      LW == CASE e.op = "poll" -> [oLastW EXCEPT ![e.f] = e.w]
              [] e.op = "drop" -> [oLastW EXCEPT ![e.f] = "-"]
              [] OTHER -> oLastW
      W0 == IF e.op \in {"poll", "drop"} THEN [oWoken EXCEPT ![e.f] = FALSE] ELSE oWoken
      \* wakers taken under the lock and invoked after it (`taken`) count like in-lock wake-ups
      ws == Wakes(e) \o (IF "taken" \in DOMAIN e THEN e.taken ELSE <<>>)
  IN
  /\ oA' = A /\ oExp' = X /\ oLastW' = LW
  /\ oNow' = IF e.op = "set_clock" THEN e.t ELSE oNow
  /\ oDl' = CASE e.op = "create" -> [oDl EXCEPT ![e.f] = e.t]
              [] e.op = "delay" -> [oDl EXCEPT ![e.f] = IF "val" \in DOMAIN e THEN e.val ELSE INF]
              [] e.op = "drop" -> [oDl EXCEPT ![e.f] = 0]
              [] OTHER -> oDl
  /\ oWoken' = [f \in Slots |-> W0[f] \/ (A[f] = "pending" /\
                    \E i \in 1..Len(ws) : ws[i][1] = f /\ ws[i][2] = LW[f])]
  /\ bad' = StepBad(e, A, X)

NoBad(id) == id \notin bad
C01 == NoBad("C01")
\* C15: step checks, plus: an expired pending future has been woken through its latest waker
C15 == NoBad("C15") /\ \A f \in OPending : oExp[f] => oWoken[f]
C17 == NoBad("C17")
C18 == NoBad("C18")
=============================================================================
