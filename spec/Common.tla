------------------------------- MODULE Common -------------------------------
(***************************************************************************)
(* Helpers shared by all futures-intrusive specifications.                 *)
(***************************************************************************)
EXTENDS Naturals, Sequences, FiniteSets, TLC

Rm(s, x)      == SelectSeq(s, LAMBDA y : y # x)
InSeq(s, x)   == \E i \in 1..Len(s) : s[i] = x
SeqSet(s)     == {s[i] : i \in 1..Len(s)}
NoDup(s)      == \A i, j \in 1..Len(s) : i # j => s[i] # s[j]
IndexOf(s, x) == CHOOSE i \in 1..Len(s) : s[i] = x
Before(s, x, y) == InSeq(s, x) /\ InSeq(s, y) /\ IndexOf(s, x) < IndexOf(s, y)

(* Bags of wakers, represented as functions into Nat over a fixed domain. *)
EmptyBag(D)    == [x \in D |-> 0]
BagAdd(b, ws)  == [x \in DOMAIN b |->
                     b[x] + Cardinality({i \in 1..Len(ws) : ws[i] = x})]
BagDel(b, w)   == [b EXCEPT ![w] = @ - 1]
BagIn(b, w)    == w \in DOMAIN b /\ b[w] > 0
RECURSIVE SumOver(_, _)
SumOver(f, D)  == IF D = {} THEN 0
                  ELSE LET x == CHOOSE y \in D : TRUE IN f[x] + SumOver(f, D \ {x})
BagSize(b)     == SumOver(b, DOMAIN b)

(* Sorted sequence of the naturals in a set. *)
RECURSIVE SetToSortedSeq(_)
SetToSortedSeq(S) == IF S = {} THEN <<>>
                     ELSE LET m == CHOOSE x \in S : \A y \in S : x <= y
                          IN <<m>> \o SetToSortedSeq(S \ {m})
=============================================================================
