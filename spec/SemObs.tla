------------------------------- MODULE SemObs -------------------------------
(***************************************************************************)
(* Client-level observer for the async semaphore (src/sync/semaphore.rs,   *)
(* borrowed and shared flavour).  Ghost state is updated only from what a  *)
(* client sees; properties C01, C05, C06, C07, C17, C18.                   *)
(*                                                                         *)
(* Events (all carry term, pub=[permits], q, nst, alloc):                  *)
(*   create f n | poll f w res wakes | poll_done f res | drop f wakes      *)
(*   try_acquire n res | release n wakes | drop_releaser a wakes           *)
(*   disarm a res val | permits res val      (res "ok", val the number)    *)
(* `a` is the armed amount of the releaser that is dropped / disarmed      *)
(* (0 for a disarmed one); wakes are delivered inside the critical section *)
(* of the call (wake_by_ref under the lock).                               *)
(***************************************************************************)
EXTENDS Common

CONSTANTS K, Fair, Wk, Init0, MaxReq

Slots  == 1..K
Amts   == 0..MaxReq

VARIABLES oA,      \* slot -> "none" | "new" | "pending" | "done"
          oReq,    \* slot -> requested permits
          oLastW,  \* slot -> waker variant of the latest poll
          oWoken,  \* slot -> woken through oLastW since the latest poll
          oOrd,    \* pending futures ordered by the start of their current wait
          oRels,   \* bag (amount -> count) of live releasers
          oLedger, \* permits the semaphore must hold by the books
          bad

obsVars == <<oA, oReq, oLastW, oWoken, oOrd, oRels, oLedger, bad>>

ObsInit == /\ oA = [f \in Slots |-> "none"]
           /\ oReq = [f \in Slots |-> 0]
           /\ oLastW = [f \in Slots |-> "-"]
           /\ oWoken = [f \in Slots |-> FALSE]
           /\ oOrd = <<>>
           /\ oRels = [a \in Amts |-> 0]
           /\ oLedger = Init0
           /\ bad = {}

OPending == {f \in Slots : oA[f] = "pending"}

QueueCheck(e, A) ==
  "q" \in DOMAIN e =>
  /\ NoDup(e.q)
  /\ \A i \in 1..Len(e.q) : e.q[i] \in Slots /\ A[e.q[i]] = "pending"
  /\ \A f \in Slots :
       /\ (A[f] = "pending" /\ ~InSeq(e.q, f)) => (~Fair /\ e.nst[f] = "notified")
       /\ InSeq(e.q, f) => e.nst[f] \in {"waiting", "notified"}
       /\ (A[f] = "none") <=> (e.nst[f] = "none")

Wakes(e) == IF "wakes" \in DOMAIN e THEN e.wakes ELSE <<>>

\* amount acquired by this event (-1: none)
Acquired(e) == CASE e.op = "poll" /\ e.res = "ready" -> oReq[e.f]
                 [] e.op = "try_acquire" /\ e.res = "some" -> e.n
                 [] OTHER -> 0
Completes(e) == (e.op = "poll" /\ e.res = "ready") \/ (e.op = "try_acquire" /\ e.res = "some")

StepBad(e, A, L) ==
  LET c01 == \/ (e.op # "poll_done" /\ "res" \in DOMAIN e /\ e.res = "panic")
             \/ ~QueueCheck(e, A)
      c05 == \/ ("pub" \in DOMAIN e /\ e.pub.permits # L)
             \/ (Completes(e) /\ Acquired(e) > oLedger)
             \/ (e.op = "disarm" /\ e.res = "ok" /\ e.val # e.a)
             \/ (e.op = "permits" /\ e.res = "ok" /\ e.val # oLedger)
      c07 == \/ (Fair /\ e.op = "poll" /\ e.res = "ready" /\ oReq[e.f] > 0 /\
                   IF InSeq(oOrd, e.f) THEN Head(oOrd) # e.f ELSE oOrd # <<>>)
             \/ (Fair /\ e.op = "try_acquire" /\ e.res = "some" /\ e.n > 0 /\ oOrd # <<>>)
             \/ (e.op = "poll" /\ oReq[e.f] = 0 /\ e.res # "ready")
             \/ (e.op = "try_acquire" /\ e.n = 0 /\ e.res # "some")
      c17 == \/ ("term" \in DOMAIN e /\ e.term # SetToSortedSeq({f \in Slots : A[f] = "done"}))
             \* threaded runs report is_terminated() of the polled future only
             \/ ("fterm" \in DOMAIN e /\ e.op = "poll" /\ e.fterm # (A[e.f] = "done"))
             \/ (e.op = "poll_done" /\ e.res # "panic")
      c18 == "alloc" \in DOMAIN e /\ e.alloc # 0
      \* a threaded run in which every task ended up parked: a lost wake-up
      cdl == e.op = "abort" /\ "res" \in DOMAIN e /\ e.res = "deadlock"
  IN (IF cdl THEN {"C06"} ELSE {}) \cup (IF c01 THEN {"C01"} ELSE {}) \cup (IF c05 THEN {"C05"} ELSE {})
     \cup (IF c07 THEN {"C07"} ELSE {}) \cup (IF c17 THEN {"C17"} ELSE {})
     \cup (IF c18 THEN {"C18"} ELSE {})

ObsStep(e) ==
  LET A == CASE e.op = "create" -> [oA EXCEPT ![e.f] = "new"]
             [] e.op = "poll" -> [oA EXCEPT ![e.f] = IF e.res = "ready" THEN "done"
                                                     ELSE IF e.res = "pending" THEN "pending" ELSE @]
             [] e.op = "drop" -> [oA EXCEPT ![e.f] = "none"]
             [] OTHER -> oA
      L == CASE Completes(e) -> oLedger - Acquired(e)
             [] e.op = "release" -> oLedger + e.n
             [] e.op = "drop_releaser" -> oLedger + e.a
             [] OTHER -> oLedger
      \* arrival order: first Pending poll; unfair: again when a woken future goes back to waiting
      O == CASE e.op = "poll" /\ e.res = "pending" ->
                  IF ~InSeq(oOrd, e.f) THEN Append(oOrd, e.f)
                  ELSE IF ~Fair /\ oWoken[e.f] THEN Append(Rm(oOrd, e.f), e.f)
                  ELSE oOrd
             [] e.op = "poll" /\ e.res = "ready" -> Rm(oOrd, e.f)
             [] e.op = "drop" -> Rm(oOrd, e.f)
             [] OTHER -> oOrd
      LW == CASE e.op = "poll" -> [oLastW EXCEPT ![e.f] = e.w]
              [] e.op = "drop" -> [oLastW EXCEPT ![e.f] = "-"]
              [] OTHER -> oLastW
      W0 == IF e.op \in {"poll", "drop"} THEN [oWoken EXCEPT ![e.f] = FALSE] ELSE oWoken
      \* wakers taken under the lock and invoked after it (`taken`) count like in-lock wake-ups
      ws == Wakes(e) \o (IF "taken" \in DOMAIN e THEN e.taken ELSE <<>>)
  IN
  /\ oA' = A /\ oLedger' = L /\ oOrd' = O /\ oLastW' = LW
  /\ oReq' = CASE e.op = "create" -> [oReq EXCEPT ![e.f] = e.n]
               [] e.op = "drop" -> [oReq EXCEPT ![e.f] = 0]
               [] OTHER -> oReq
  /\ oWoken' = [f \in Slots |-> W0[f] \/ (A[f] = "pending" /\
                    \E i \in 1..Len(ws) : ws[i][1] = f /\ ws[i][2] = LW[f])]
  /\ oRels' = CASE Completes(e) -> [oRels EXCEPT ![Acquired(e)] = @ + 1]
                [] e.op = "drop_releaser" -> [oRels EXCEPT ![e.a] = @ - 1]
                [] e.op = "disarm" -> [[oRels EXCEPT ![e.a] = @ - 1] EXCEPT ![0] = @ + 1]
                [] OTHER -> oRels
  /\ bad' = StepBad(e, A, L)

NoBad(id) == id \notin bad
C01 == NoBad("C01")
C05 == NoBad("C05")
\* C06: if nobody holds an unconsumed wake-up, the longest-waiting request does not fit
C06 == (OPending # {} /\ ~\E f \in OPending : oWoken[f]) =>
          (oOrd # <<>> /\ oReq[Head(oOrd)] > oLedger)
C07 == NoBad("C07")
C17 == NoBad("C17")
C18 == NoBad("C18")
OrdOK == SeqSet(oOrd) = OPending /\ NoDup(oOrd)
=============================================================================
