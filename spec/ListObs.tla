------------------------------- MODULE ListObs -------------------------------
(***************************************************************************)
(* Abstract-data-type observer for the intrusive doubly linked list        *)
(* (src/intrusive_double_linked_list.rs): a double-ended queue with O(1)   *)
(* removal of a given member.  Property C20 (list part), C18.              *)
(* Events: add_front n | remove_first res n | remove_last res n            *)
(*   remove n res ("true"/"false") | drain visited | reverse_drain visited *)
(*   peek_first res n | peek_last res n | is_empty res                     *)
(* all carry the raw links: head, tail, prev[1..N], next[1..N] (0 = none,  *)
(* -1 = a pointer to something that is not one of the N nodes).            *)
(***************************************************************************)
EXTENDS Common

CONSTANTS N
Nodes == 1..N

VARIABLES oSeq,   \* the deque, front (head, newest) first
          bad

obsVars == <<oSeq, bad>>
ObsInit == oSeq = <<>> /\ bad = {}

Rev(s) == [i \in 1..Len(s) |-> s[Len(s) + 1 - i]]
Fld(e, k, d) == IF k \in DOMAIN e THEN e[k] ELSE d

\* all links are mutually consistent with the abstract sequence; non-members carry no links
LinksOK(e, S) ==
  "head" \in DOMAIN e =>
  /\ e.head = (IF S = <<>> THEN 0 ELSE Head(S))
  /\ e.tail = (IF S = <<>> THEN 0 ELSE S[Len(S)])
  /\ \A i \in 1..Len(S) : /\ e.next[S[i]] = (IF i = Len(S) THEN 0 ELSE S[i + 1])
                          /\ e.prev[S[i]] = (IF i = 1 THEN 0 ELSE S[i - 1])
  /\ \A n \in Nodes : ~InSeq(S, n) => (e.next[n] = 0 /\ e.prev[n] = 0)

StepBad(e, S) ==
  LET res == Fld(e, "res", "-")
      n == Fld(e, "n", 0)
      c20 == \/ res = "panic"
             \/ (e.op = "remove_first" /\ IF oSeq = <<>> THEN res # "none" ELSE (res # "some" \/ n # Head(oSeq)))
             \/ (e.op = "remove_last" /\ IF oSeq = <<>> THEN res # "none" ELSE (res # "some" \/ n # oSeq[Len(oSeq)]))
             \/ (e.op = "peek_first" /\ IF oSeq = <<>> THEN res # "none" ELSE (res # "some" \/ n # Head(oSeq)))
             \/ (e.op = "peek_last" /\ IF oSeq = <<>> THEN res # "none" ELSE (res # "some" \/ n # oSeq[Len(oSeq)]))
             \/ (e.op = "remove" /\ res # (IF InSeq(oSeq, n) THEN "true" ELSE "false"))
             \/ (e.op = "drain" /\ e.visited # oSeq)
             \/ (e.op = "reverse_drain" /\ e.visited # Rev(oSeq))
             \/ (e.op = "is_empty" /\ res # (IF oSeq = <<>> THEN "true" ELSE "false"))
             \/ ~LinksOK(e, S)
      c18 == "alloc" \in DOMAIN e /\ e.alloc # 0
  IN (IF c20 THEN {"C20"} ELSE {}) \cup (IF c18 THEN {"C18"} ELSE {})

ObsStep(e) ==
  LET S == CASE e.op = "add_front" -> <<e.n>> \o oSeq
             [] e.op = "remove_first" /\ oSeq # <<>> -> Tail(oSeq)
             [] e.op = "remove_last" /\ oSeq # <<>> -> SubSeq(oSeq, 1, Len(oSeq) - 1)
             [] e.op = "remove" -> Rm(oSeq, e.n)
             [] e.op \in {"drain", "reverse_drain"} -> <<>>
             [] OTHER -> oSeq
  IN oSeq' = S /\ bad' = StepBad(e, S)

C20 == "C20" \notin bad
C18 == "C18" \notin bad
=============================================================================
