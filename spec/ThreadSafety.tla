---------------------------- MODULE ThreadSafety ----------------------------
(***************************************************************************)
(* C16: is the set of auto-trait facts (Send / Sync / Unpin) that rustc    *)
(* derives for the public types of the crate *sound*?                      *)
(*                                                                         *)
(* The facts are observed from the implementation (harness `probe`, one    *)
(* fact per public type and witness instantiation) and read here as a      *)
(* constant (JSON).  Soundness is a reachability question over a small     *)
(* ownership / thread-transfer system with two threads:                    *)
(*                                                                         *)
(*   a state is a set of tokens [t, k, m]: thread t holds a value of kind  *)
(*   k by ownership (m = "own") or by shared reference (m = "ref");        *)
(*   Move(tok)   an owned value moves to the other thread  iff  k: Send    *)
(*   Share(tok)  a shared reference is copied to the other thread          *)
(*                                                      iff  k: Sync       *)
(*   Borrow(tok) own |- ref;  Api(e, tok)  the public API turns a token    *)
(*   into another one (lock() gives a future, poll gives a guard, ...);    *)
(*   Drop(tok).                                                            *)
(*                                                                         *)
(* Every token grants capabilities on the resources a client supplied:     *)
(* the payload T, the lock M, the buffer A (all created on thread 1).      *)
(*   excl   -- mutate / move out / drop  (needs the resource to be Send    *)
(*             when exercised on thread 2)                                 *)
(*   shared -- &-access (needs the resource to be Sync when two threads    *)
(*             hold it at the same time)                                   *)
(* Access that happens under the primitive's own lock counts as excl (the  *)
(* usual  Mutex<T>: Sync  needs  T: Send  argument).                       *)
(* A reachable state that violates these rules is a program, written in    *)
(* safe Rust against the facts, that is a data race / thread-affinity bug. *)
(* In addition: every future that embeds a wait node must be !Unpin, and   *)
(* everything the crate documents as Send / Sync for Send payloads stays so*)
(***************************************************************************)
EXTENDS Naturals, Sequences, FiniteSets, TLC, Json, IOUtils

Facts == JsonDeserialize(IOEnv.TRAITS)

\* lock witnesses: parking_lot (Send + Sync), the no-op lock (neither), and two exotic but legal
\* `RawMutex` types: one that is Send but not Sync, one that is Sync but not Send
Locks == {"pl", "noop", "lsend", "lsync"}
Payloads == {"sendsync", "sendonly", "synconly", "none"}
ClonePayloads == {"sendsync", "synconly", "none"}
Buffers == {"array", "notsend"}

(* ----- the public types: [k, ar (which parameters appear in the type),   *)
(* fut (embeds a wait node), root ("prim": borrowed primitive, "handle":   *)
(* reference counted handle, "-": obtained through the API)]               *)
K(k, ar, fut, root) == [k |-> k, ar |-> ar, fut |-> fut, root |-> root]
E(from, how, gives, cond) == [from |-> from, how |-> how, gives |-> gives, cond |-> cond]
C(k, m, r, lvl) == [k |-> k, m |-> m, r |-> r, lvl |-> lvl]

\* capabilities shared by "anything that can take the primitive's lock and move values through it"
Through(k, m, rs) == {C(k, m, "lock", "shared")} \cup {C(k, m, r, "excl") : r \in rs}
Owns(k, rs) == {C(k, "own", r, "excl") : r \in rs \cup {"lock"}}

Families == {
  [name |-> "mutex", params |-> "LP",
   kinds |-> {K("Mutex", "LP", FALSE, "prim"), K("MutexLockFuture", "LP", TRUE, "-"), K("MutexGuard", "LP", FALSE, "-")},
   edges |-> {E("Mutex", "ref", "MutexLockFuture", "-"), E("MutexLockFuture", "own", "MutexGuard", "unique"),
              E("Mutex", "ref", "MutexGuard", "unique")},
   caps |-> Owns("Mutex", {"payload"}) \cup Through("Mutex", "ref", {}) \cup Through("MutexLockFuture", "own", {})
            \cup Through("MutexGuard", "own", {"payload"}) \cup {C("MutexGuard", "ref", "payload", "shared")}],
  [name |-> "semaphore", params |-> "L",
   kinds |-> {K("Semaphore", "L", FALSE, "prim"), K("SemaphoreAcquireFuture", "L", TRUE, "-"), K("SemaphoreReleaser", "L", FALSE, "-")},
   edges |-> {E("Semaphore", "ref", "SemaphoreAcquireFuture", "-"), E("SemaphoreAcquireFuture", "own", "SemaphoreReleaser", "-"),
              E("Semaphore", "ref", "SemaphoreReleaser", "-")},
   caps |-> Owns("Semaphore", {}) \cup Through("Semaphore", "ref", {}) \cup Through("SemaphoreAcquireFuture", "own", {})
            \cup Through("SemaphoreReleaser", "own", {})],
  [name |-> "shared_semaphore", params |-> "L",
   kinds |-> {K("SharedSemaphore", "L", FALSE, "handle"), K("SharedSemaphoreAcquireFuture", "L", TRUE, "-"),
              K("SharedSemaphoreReleaser", "L", FALSE, "-")},
   edges |-> {E("SharedSemaphore", "ref", "SharedSemaphore", "-"), E("SharedSemaphore", "ref", "SharedSemaphoreAcquireFuture", "-"),
              E("SharedSemaphoreAcquireFuture", "own", "SharedSemaphoreReleaser", "-"),
              E("SharedSemaphore", "ref", "SharedSemaphoreReleaser", "-")},
   caps |-> Through("SharedSemaphore", "own", {}) \cup Through("SharedSemaphore", "ref", {})
            \cup Through("SharedSemaphoreAcquireFuture", "own", {}) \cup Through("SharedSemaphoreReleaser", "own", {})],
  [name |-> "event", params |-> "L",
   kinds |-> {K("ManualResetEvent", "L", FALSE, "prim"), K("WaitForEventFuture", "L", TRUE, "-")},
   edges |-> {E("ManualResetEvent", "ref", "WaitForEventFuture", "-")},
   caps |-> Owns("ManualResetEvent", {}) \cup Through("ManualResetEvent", "ref", {}) \cup Through("WaitForEventFuture", "own", {})],
  [name |-> "timer", params |-> "L",
   kinds |-> {K("TimerService", "L", FALSE, "prim"), K("LocalTimerFuture", "", TRUE, "-"), K("TimerFuture", "", TRUE, "-")},
   edges |-> {E("TimerService", "ref", "LocalTimerFuture", "-"), E("TimerService", "ref", "TimerFuture", "timertrait")},
   caps |-> Owns("TimerService", {}) \cup Through("TimerService", "ref", {}) \cup Through("LocalTimerFuture", "own", {})
            \cup Through("TimerFuture", "own", {})],
  [name |-> "channel", params |-> "LPB",
   kinds |-> {K("Channel", "LPB", FALSE, "prim"), K("ChannelSendFuture", "LP", TRUE, "-"), K("ChannelReceiveFuture", "LP", TRUE, "-"),
              K("ChannelStream", "LPB", TRUE, "-")},
   edges |-> {E("Channel", "ref", "ChannelSendFuture", "-"), E("Channel", "ref", "ChannelReceiveFuture", "-"),
              E("Channel", "ref", "ChannelStream", "-")},
   caps |-> Owns("Channel", {"payload", "buffer"}) \cup Through("Channel", "ref", {"payload", "buffer"})
            \cup Through("ChannelSendFuture", "own", {"payload", "buffer"})
            \cup Through("ChannelReceiveFuture", "own", {"payload", "buffer"})
            \cup Through("ChannelStream", "own", {"payload", "buffer"})],
  [name |-> "shared_channel", params |-> "LPB",
   kinds |-> {K("Sender", "LPB", FALSE, "handle"), K("Receiver", "LPB", FALSE, "handle"),
              K("SharedChannelSendFuture", "LP", TRUE, "-"), K("SharedChannelReceiveFuture", "LP", TRUE, "-"),
              K("SharedStream", "LPB", TRUE, "-")},
   edges |-> {E("Sender", "ref", "Sender", "-"), E("Receiver", "ref", "Receiver", "-"),
              E("Sender", "ref", "SharedChannelSendFuture", "-"), E("Receiver", "ref", "SharedChannelReceiveFuture", "-"),
              E("Receiver", "own", "SharedStream", "-")},
   caps |-> UNION {Through(k, "own", {"payload", "buffer"}) : k \in {"Sender", "Receiver", "SharedChannelSendFuture",
                                                                      "SharedChannelReceiveFuture", "SharedStream"}}
            \cup Through("Sender", "ref", {"payload", "buffer"}) \cup Through("Receiver", "ref", {"payload", "buffer"})],
  [name |-> "oneshot", params |-> "LP",
   kinds |-> {K("OneshotChannel", "LP", FALSE, "prim"), K("ChannelReceiveFuture", "LP", TRUE, "-")},
   edges |-> {E("OneshotChannel", "ref", "ChannelReceiveFuture", "-")},
   caps |-> Owns("OneshotChannel", {"payload"}) \cup Through("OneshotChannel", "ref", {"payload"})
            \cup Through("ChannelReceiveFuture", "own", {"payload"})],
  [name |-> "shared_oneshot", params |-> "LP",
   kinds |-> {K("OneshotSender", "LP", FALSE, "handle"), K("OneshotReceiver", "LP", FALSE, "handle"),
              K("SharedChannelReceiveFuture", "LP", TRUE, "-")},
   edges |-> {E("OneshotReceiver", "ref", "SharedChannelReceiveFuture", "-")},
   caps |-> UNION {Through(k, "own", {"payload"}) : k \in {"OneshotSender", "OneshotReceiver", "SharedChannelReceiveFuture"}}
            \cup Through("OneshotSender", "ref", {"payload"}) \cup Through("OneshotReceiver", "ref", {})],
  [name |-> "oneshot_broadcast", params |-> "LC",
   kinds |-> {K("OneshotBroadcastChannel", "LP", FALSE, "prim"), K("ChannelReceiveFuture", "LP", TRUE, "-")},
   edges |-> {E("OneshotBroadcastChannel", "ref", "ChannelReceiveFuture", "-")},
   caps |-> Owns("OneshotBroadcastChannel", {"payload"}) \cup Through("OneshotBroadcastChannel", "ref", {"payload"})
            \cup Through("ChannelReceiveFuture", "own", {"payload"})],
  [name |-> "shared_oneshot_broadcast", params |-> "LC",
   kinds |-> {K("OneshotBroadcastSender", "LP", FALSE, "handle"), K("OneshotBroadcastReceiver", "LP", FALSE, "handle"),
              K("SharedChannelReceiveFuture", "LP", TRUE, "-")},
   edges |-> {E("OneshotBroadcastReceiver", "ref", "OneshotBroadcastReceiver", "-"),
              E("OneshotBroadcastReceiver", "ref", "SharedChannelReceiveFuture", "-")},
   caps |-> UNION {Through(k, "own", {"payload"}) : k \in {"OneshotBroadcastSender", "OneshotBroadcastReceiver",
                                                           "SharedChannelReceiveFuture"}}
            \cup Through("OneshotBroadcastSender", "ref", {"payload"}) \cup Through("OneshotBroadcastReceiver", "ref", {})],
  [name |-> "state_broadcast", params |-> "LC",
   kinds |-> {K("StateBroadcastChannel", "LP", FALSE, "prim"), K("StateReceiveFuture", "LP", TRUE, "-")},
   edges |-> {E("StateBroadcastChannel", "ref", "StateReceiveFuture", "-")},
   caps |-> Owns("StateBroadcastChannel", {"payload"}) \cup Through("StateBroadcastChannel", "ref", {"payload"})
            \cup Through("StateReceiveFuture", "own", {"payload"})],
  [name |-> "shared_state_broadcast", params |-> "LC",
   kinds |-> {K("StateSender", "LP", FALSE, "handle"), K("StateReceiver", "LP", FALSE, "handle"),
              K("SharedStateReceiveFuture", "LP", TRUE, "-")},
   edges |-> {E("StateSender", "ref", "StateSender", "-"), E("StateReceiver", "ref", "StateReceiver", "-"),
              E("StateReceiver", "ref", "SharedStateReceiveFuture", "-")},
   caps |-> UNION {Through(k, "own", {"payload"}) : k \in {"StateSender", "StateReceiver", "SharedStateReceiveFuture"}}
            \cup Through("StateSender", "ref", {"payload"}) \cup Through("StateReceiver", "ref", {"payload"})]
}

\* Every value of a reference-counted family (handles, and the futures / releasers that embed a handle)
\* may be the last owner: dropping it destroys the lock (and payload, buffer) on the dropping thread.
ArcFamilies == {"shared_semaphore", "shared_channel", "shared_oneshot", "shared_oneshot_broadcast", "shared_state_broadcast"}
Caps(f) == f.caps \cup (IF f.name \in ArcFamilies THEN {C(x.k, "own", "lock", "excl") : x \in f.kinds} ELSE {})

Combos(f) ==
  CASE f.params = "L" -> {[l |-> l, p |-> "sendsync", b |-> "array"] : l \in Locks}
    [] f.params = "LP" -> {[l |-> l, p |-> p, b |-> "array"] : l \in Locks, p \in Payloads}
    [] f.params = "LC" -> {[l |-> l, p |-> p, b |-> "array"] : l \in Locks, p \in ClonePayloads}
    [] f.params = "LPB" -> {[l |-> l, p |-> p, b |-> b] : l \in Locks, p \in Payloads, b \in Buffers}

KindRec(f, k) == CHOOSE x \in f.kinds : x.k = k
Key(f, k, c) ==
  LET ar == KindRec(f, k).ar IN
  CASE ar = "" -> k
    [] ar = "L" -> k \o "|" \o c.l
    [] ar = "LP" -> k \o "|" \o c.l \o "|" \o c.p
    [] ar = "LPB" -> k \o "|" \o c.l \o "|" \o c.p \o "|" \o c.b
Fact(f, k, c) == Facts[Key(f, k, c)]

\* the client-supplied resources
ResSend(r, c) == CASE r = "lock" -> Facts["Lock|" \o c.l].send
                   [] r = "payload" -> Facts["Payload|" \o c.p].send
                   [] r = "buffer" -> Facts["Buffer|" \o c.b \o "|sendsync"].send
ResSync(r, c) == CASE r = "lock" -> Facts["Lock|" \o c.l].sync
                   [] r = "payload" -> Facts["Payload|" \o c.p].sync
                   [] r = "buffer" -> Facts["Buffer|" \o c.b \o "|sendsync"].sync
\* resources the family actually has
HasRes(f, r) == \E x \in Caps(f) : x.r = r

VARIABLES fam, combo, tokens, hist
vars == <<fam, combo, tokens, hist>>

Other(t) == 3 - t
Tok(t, k, m) == [t |-> t, k |-> k, m |-> m]

Init == /\ fam \in Families
        /\ combo \in Combos(fam)
        /\ tokens = {Tok(1, x.k, "own") : x \in {y \in fam.kinds : y.root # "-"}}
        /\ hist = <<>>

Move(tok) ==
  /\ tok.m = "own" /\ Fact(fam, tok.k, combo).send
  \* a borrowed primitive cannot move while anything derived from it is alive;
  \* no value can move while a shared reference to (a value of) its kind is alive
  /\ KindRec(fam, tok.k).root = "prim" => tokens = {tok}
  /\ ~\E r \in tokens : r.k = tok.k /\ r.m = "ref"
  /\ tokens' = (tokens \ {tok}) \cup {Tok(Other(tok.t), tok.k, "own")}
  /\ hist' = Append(hist, <<"move", tok.k, tok.t, Other(tok.t)>>)
Share(tok) ==
  /\ tok.m = "ref" /\ Fact(fam, tok.k, combo).sync
  /\ tokens' = tokens \cup {Tok(Other(tok.t), tok.k, "ref")}
  /\ hist' = Append(hist, <<"share_ref", tok.k, tok.t, Other(tok.t)>>)
Borrow(tok) ==
  /\ tok.m = "own" /\ Tok(tok.t, tok.k, "ref") \notin tokens
  /\ tokens' = tokens \cup {Tok(tok.t, tok.k, "ref")}
  /\ hist' = Append(hist, <<"borrow", tok.k, tok.t>>)
Api(e, tok) ==
  /\ e.from = tok.k /\ e.how = tok.m
  /\ e.cond = "unique" => ~\E x \in tokens : x.k = e.gives
  \* the Send-future API of the timer exists iff rustc says the service implements the `Timer` trait
  /\ e.cond = "timertrait" => Facts["TimerService|" \o combo.l].timer
  /\ Tok(tok.t, e.gives, "own") \notin tokens
  /\ tokens' = tokens \cup {Tok(tok.t, e.gives, "own")}
  /\ hist' = Append(hist, <<"api", e.from, e.gives, tok.t>>)
\* a handle is cloned and the clone is sent away (the token set cannot hold two equal tokens on one
\* thread, so cloning and moving the clone is one step): needs the handle type to be Send
CloneMove(e, tok) ==
  /\ e.from = tok.k /\ e.how = tok.m /\ e.gives = e.from
  /\ Fact(fam, tok.k, combo).send
  /\ Tok(Other(tok.t), e.gives, "own") \notin tokens
  /\ tokens' = tokens \cup {Tok(Other(tok.t), e.gives, "own")}
  /\ hist' = Append(hist, <<"clone_and_move", e.from, tok.t, Other(tok.t)>>)
DropTok(tok) ==
  /\ KindRec(fam, tok.k).root = "-" \/ tok.m = "ref"
  /\ tok.m = "own" => ~\E r \in tokens : r.k = tok.k /\ r.m = "ref"
  /\ tokens' = tokens \ {tok}
  /\ hist' = Append(hist, <<"drop", tok.k, tok.m, tok.t>>)

Next == /\ UNCHANGED <<fam, combo>>
        /\ \E tok \in tokens : \/ Move(tok) \/ Share(tok) \/ Borrow(tok) \/ DropTok(tok)
                               \/ \E e \in fam.edges : Api(e, tok) \/ CloneMove(e, tok)
Spec == Init /\ [][Next]_vars

(* ----- what makes a state a bug ---------------------------------------- *)
CapsOf(tok) == {x \in Caps(fam) : x.k = tok.k /\ x.m = tok.m}
\* an owned primitive cannot be touched while it is borrowed
Dormant(tok) == KindRec(fam, tok.k).root = "prim" /\ tok.m = "own" /\ tokens # {tok}

SendViol ==
  {<<"send", p[1].k, p[2].r>> :
     p \in {<<t, z>> \in tokens \X Caps(fam) :
              t.t = 2 /\ ~Dormant(t) /\ z.k = t.k /\ z.m = t.m /\ z.lvl = "excl" /\ ~ResSend(z.r, combo)}}
SyncViol ==
  {<<"sync", p[1].k, p[2].r>> :
     p \in {<<a, z>> \in tokens \X Caps(fam) :
              a.t = 2 /\ z.k = a.k /\ z.m = a.m /\ z.lvl = "shared" /\ ~ResSync(z.r, combo) /\
              \E b \in tokens : b.t = 1 /\ ~Dormant(b) /\
                 \E w \in Caps(fam) : w.k = b.k /\ w.m = b.m /\ w.r = z.r /\ w.lvl = "shared"}}
Violations == SendViol \cup SyncViol

\* pruned exploration: report a violating state once, do not explore beyond it
Report == Violations = {} \/ ~PrintT(<<"C16VIOL", ToJson([family |-> fam.name, combo |-> combo,
                                                          violations |-> Violations, program |-> hist])>>)
Depth == Len(hist) <= 5

(* ----- static requirements over the facts ------------------------------ *)
FutureKeys == UNION {{Key(f, x.k, c) : c \in Combos(f), x \in {y \in f.kinds : y.fut}} : f \in Families}
PinViolations == {k \in FutureKeys : Facts[k].unpin}

\* what the crate documents / tests as Send and Sync: thread-safe flavours with Send + Sync payloads
DocCombo(f) == {c \in Combos(f) : c.l = "pl" /\ c.p = "sendsync" /\ c.b = "array"}
MustSend == UNION {{Key(f, x.k, c) : c \in DocCombo(f), x \in {y \in f.kinds : y.k # "LocalTimerFuture"}} : f \in Families}
MustSync == UNION {{Key(f, x.k, c) : c \in DocCombo(f), x \in {y \in f.kinds : ~y.fut}} : f \in Families}
\* local flavours never cross threads: the no-op lock is neither Send nor Sync (it does not lock), the
\* primitives and handles built on it are neither Send nor Sync, their futures are not Send
LocalCombo(f) == {c \in Combos(f) : c.l = "noop"}
LeakyKinds(f, c) == {y \in f.kinds : y.ar # "" /\ (IF y.root # "-" THEN Fact(f, y.k, c).send \/ Fact(f, y.k, c).sync
                                                    ELSE y.fut /\ Fact(f, y.k, c).send)}
LocalLeaks == (IF Facts["Lock|noop"].send \/ Facts["Lock|noop"].sync THEN {"Lock|noop"} ELSE {})
              \cup UNION {UNION {{Key(f, x.k, c) : x \in LeakyKinds(f, c)} : c \in LocalCombo(f)} : f \in Families}
Regressions == {<<"lost_send", k>> : k \in {x \in MustSend : ~Facts[x].send}}
               \cup {<<"lost_sync", k>> : k \in {x \in MustSync : ~Facts[x].sync}}
               \cup {<<"local_crosses_threads", k>> : k \in LocalLeaks}
ASSUME PrintT(<<"C16STATIC", ToJson([unpin |-> PinViolations, regressions |-> Regressions])>>)
=============================================================================
