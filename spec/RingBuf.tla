------------------------------- MODULE RingBuf -------------------------------
(***************************************************************************)
(* Model of the ring buffers (src/buffer/ring_buffer.rs).  Array = TRUE:   *)
(* ArrayBuf with its real index arithmetic (slots 0..Cap-1, send_idx,      *)
(* recv_idx, size, next_idx wrap-around, Drop walking from recv_idx).      *)
(* Array = FALSE: the VecDeque backed FixedHeapBuf / GrowingHeapBuf, a     *)
(* sequence with a limit.                                                  *)
(***************************************************************************)
EXTENDS RingObs, Json

CONSTANTS Array, MaxV

VARIABLES slots, sendIdx, recvIdx, size, dead, evt
implVars == <<slots, sendIdx, recvIdx, size, dead>>
vars == <<implVars, obsVars, evt>>

Idx == 0..(Cap - 1)
View == [size |-> size, send |-> sendIdx, recv |-> recvIdx, slots |-> slots, dead |-> dead, oSeq |-> oSeq, bad |-> bad]
Consts == [Cap |-> Cap, Array |-> Array, MaxV |-> MaxV]

Init == /\ slots = [i \in Idx |-> 0] /\ sendIdx = 0 /\ recvIdx = 0 /\ size = 0 /\ dead = FALSE
        /\ evt = [op |-> "init"] /\ ObsInit

\* (events of the array flavour carry the raw indices; a dropped buffer reports none)
Emit(e) == LET full == IF Array /\ ~dead' THEN e @@ [dropped |-> <<>>, idx |-> [size |-> size', recv |-> recvIdx', send |-> sendIdx']]
                       ELSE e @@ [dropped |-> <<>>]
           IN evt' = full /\ ObsStep(full)

NextIdx(i) == IF i + 1 = Cap THEN 0 ELSE i + 1
\* contents in FIFO order: size cells starting at recvIdx
RECURSIVE Contents(_, _)
Contents(i, n) == IF n = 0 THEN <<>> ELSE <<slots[i]>> \o Contents(NextIdx(i), n - 1)
InUse == {slots[i] : i \in Idx} \ {0}
Free == (1..MaxV) \ InUse
MinFree == CHOOSE v \in Free : \A u \in Free : v <= u

Push ==
  /\ size # Cap /\ Free # {}
  /\ slots' = [slots EXCEPT ![sendIdx] = MinFree]
  /\ sendIdx' = NextIdx(sendIdx) /\ size' = size + 1
  /\ UNCHANGED <<recvIdx, dead>>
  /\ Emit([op |-> "push", v |-> MinFree])

Pop ==
  /\ size > 0
  /\ slots' = [slots EXCEPT ![recvIdx] = 0]
  /\ recvIdx' = NextIdx(recvIdx) /\ size' = size - 1
  /\ UNCHANGED <<sendIdx, dead>>
  /\ Emit([op |-> "pop", res |-> "ok", v |-> slots[recvIdx]])

Query == UNCHANGED implVars
         /\ Emit([op |-> "query", len |-> size, empty |-> size = 0, canpush |-> size # Cap, cap |-> Cap])

DropBuffer ==
  /\ dead' = TRUE /\ slots' = [i \in Idx |-> 0] /\ size' = 0
  /\ UNCHANGED <<sendIdx, recvIdx>>
  /\ Emit([op |-> "drop_buffer", dropped |-> Contents(recvIdx, size)])

Next == ~dead /\ (Push \/ Pop \/ Query \/ DropBuffer)
Spec == Init /\ [][Next]_vars

Refines == dead \/ (oSeq = Contents(recvIdx, size) /\ size <= Cap
                    /\ (Cap > 0 => sendIdx = (recvIdx + size) % Cap))
EdgeOut == PrintT(<<"EDGE", ToJson([src |-> View, evt |-> evt', dst |-> View'])>>)
ASSUME PrintT(<<"CONST", ToJson(Consts)>>)
=============================================================================
