------------------------------- MODULE HeapObs -------------------------------
(***************************************************************************)
(* Abstract-data-type observer for the intrusive pairing heap              *)
(* (src/intrusive_pairing_heap.rs): a min-priority queue with removal of   *)
(* any member, duplicates and re-insertion.  Property C20 (heap), C18.     *)
(* Events: insert n k | remove n | peek_min res n                          *)
(* all carry the raw links root, parent[], prev[], next[], child[].        *)
(***************************************************************************)
EXTENDS Common, PairingHeapOps

CONSTANTS N
Nodes == 1..N

VARIABLES oMem,   \* members
          oKey,   \* node -> key given at the latest insertion
          bad
obsVars == <<oMem, oKey, bad>>
ObsInit == oMem = {} /\ oKey = [n \in Nodes |-> 0] /\ bad = {}

Fld(e, k, d) == IF k \in DOMAIN e THEN e[k] ELSE d

StepBad(e, M, Ky) ==
  LET res == Fld(e, "res", "-")
      h == [root |-> e.root, parent |-> e.parent, prev |-> e.prev, next |-> e.next, child |-> e.child]
      wellformed == \A n \in Nodes : h.parent[n] \in 0..N /\ h.prev[n] \in 0..N /\ h.next[n] \in 0..N /\ h.child[n] \in 0..N
      c20 == \/ res = "panic"
             \/ (e.op = "peek_min" /\ IF oMem = {} THEN res # "none"
                                      ELSE (res # "some" \/ e.n \notin oMem \/ \E m \in oMem : oKey[m] < oKey[e.n]))
             \/ ("root" \in DOMAIN e /\ (~wellformed \/ e.root \notin 0..N))
             \/ ("root" \in DOMAIN e /\ wellformed /\ e.root \in 0..N /\
                   (Members(h, N) # M \/ (M # {} /\ ~HeapLinksOK(h, N, Ky))
                    \/ (M = {} /\ (h.root # 0 \/ \E n \in Nodes : h.parent[n] # 0 \/ h.prev[n] # 0 \/ h.next[n] # 0 \/ h.child[n] # 0))))
      c18 == "alloc" \in DOMAIN e /\ e.alloc # 0
  IN (IF c20 THEN {"C20"} ELSE {}) \cup (IF c18 THEN {"C18"} ELSE {})

ObsStep(e) ==
  LET M == CASE e.op = "insert" -> oMem \cup {e.n}
             [] e.op = "remove" -> oMem \ {e.n}
             [] OTHER -> oMem
      Ky == IF e.op = "insert" THEN [oKey EXCEPT ![e.n] = e.k] ELSE oKey
  IN oMem' = M /\ oKey' = Ky /\ bad' = StepBad(e, M, Ky)

C20 == "C20" \notin bad
C18 == "C18" \notin bad
=============================================================================
