--------------------------- MODULE PairingHeapOps ---------------------------
(***************************************************************************)
(* The intrusive pairing heap of src/intrusive_pairing_heap.rs, transcribed*)
(* link by link as pure operators.  A heap value is a record               *)
(*   [root, parent, prev, next, child]                                     *)
(* where root \in 0..N and the other fields are functions 1..N -> 0..N     *)
(* (0 = None).  `key` maps nodes to their (Ord) value.                     *)
(*   add_child, meld, maybe_meld, last_child, unlink_prev, merge_children  *)
(*   (right-to-left pairing), PairingHeap::insert / remove / peek_min.     *)
(***************************************************************************)
EXTENDS Naturals, Sequences, FiniteSets

Nil == 0

EmptyHeap(N) == [root |-> Nil,
                 parent |-> [n \in 1..N |-> Nil], prev |-> [n \in 1..N |-> Nil],
                 next |-> [n \in 1..N |-> Nil], child |-> [n \in 1..N |-> Nil]]

\* add_child(parent, child): child becomes the first child of parent
AddChild(h, p, c) ==
  LET old == h.child[p]
      h1 == IF old # Nil
            THEN [h EXCEPT !.next[c] = old, !.prev[old] = c]
            ELSE h
  IN [h1 EXCEPT !.child[p] = c, !.parent[c] = p]

\* meld(left, right): the lesser node becomes the root; on ties `right`
\* result: [h, r] (r = resulting root of the melded tree)
Meld(h, l, r, key) ==
  IF key[l] < key[r] THEN [h |-> AddChild(h, l, r), r |-> l]
  ELSE [h |-> AddChild(h, r, l), r |-> r]

MaybeMeld(h, l, r, key) == IF l # Nil THEN Meld(h, l, r, key) ELSE [h |-> h, r |-> r]

RECURSIVE LastChild(_, _)
LastChild(h, n) == IF h.next[n] = Nil THEN n ELSE LastChild(h, h.next[n])

\* unlink_prev(node): [h, p] (p = the former prev, Nil if there was none)
UnlinkPrev(h, n) ==
  LET p == h.prev[n] IN
  IF p = Nil THEN [h |-> h, p |-> Nil]
  ELSE [h |-> [h EXCEPT !.prev[n] = Nil, !.next[p] = Nil], p |-> p]

\* the loop of merge_children: node = first unprocessed child (from the right),
\* cur = merged result of all processed children
RECURSIVE MergeLoop(_, _, _, _)
MergeLoop(h, node, cur, key) ==
  LET h1 == [h EXCEPT !.parent[node] = Nil]
      u1 == UnlinkPrev(h1, node)
  IN IF u1.p = Nil THEN MaybeMeld(u1.h, cur, node, key)        \* odd case
     ELSE LET prev == u1.p
              h2 == [u1.h EXCEPT !.parent[prev] = Nil]
              u2 == UnlinkPrev(h2, prev)
              m1 == Meld(u2.h, prev, node, key)
              m2 == MaybeMeld(m1.h, cur, m1.r, key)
          IN IF u2.p # Nil THEN MergeLoop(m2.h, u2.p, m2.r, key)
             ELSE m2                                            \* even case

MergeChildren(h, first, key) == MergeLoop(h, LastChild(h, first), Nil, key)

\* PairingHeap::insert
HInsert(h, n, key) ==
  IF h.root # Nil THEN LET m == Meld(h, h.root, n, key) IN [m.h EXCEPT !.root = m.r]
  ELSE [h EXCEPT !.root = n]

\* PairingHeap::remove
HRemove(h, n, key) ==
  LET p == h.parent[n]
      h1 == IF p # Nil
            THEN LET a == [h EXCEPT !.parent[n] = Nil]
                     b == IF a.prev[n] # Nil THEN [a EXCEPT !.next[a.prev[n]] = a.next[n]]
                          ELSE [a EXCEPT !.child[p] = a.next[n]]
                     c == IF b.next[n] # Nil THEN [b EXCEPT !.prev[b.next[n]] = b.prev[n]] ELSE b
                 IN [c EXCEPT !.next[n] = Nil, !.prev[n] = Nil]
            ELSE [h EXCEPT !.root = Nil]
      fc == h1.child[n]
  IN IF fc = Nil THEN h1
     ELSE LET h2 == [h1 EXCEPT !.child[n] = Nil]
              m == MergeChildren(h2, fc, key)
          IN IF p # Nil THEN AddChild(m.h, p, m.r) ELSE [m.h EXCEPT !.root = m.r]

HPeekMin(h) == h.root

(* ----- structural predicates (used as invariants) ---------------------- *)
RECURSIVE Siblings(_, _)
Siblings(h, c) == IF c = Nil THEN <<>> ELSE <<c>> \o Siblings(h, h.next[c])
Children(h, n) == Siblings(h, h.child[n])

RECURSIVE Subtree(_, _, _)
Subtree(h, n, fuel) ==     \* set of nodes reachable from n via child/next of children
  IF n = Nil \/ fuel = 0 THEN {}
  ELSE {n} \cup UNION {Subtree(h, Children(h, n)[i], fuel - 1) : i \in 1..Len(Children(h, n))}

Members(h, N) == Subtree(h, h.root, N)

HeapLinksOK(h, N, key) ==
  LET M == Members(h, N) IN
  /\ h.root # Nil => (h.parent[h.root] = Nil /\ h.prev[h.root] = Nil /\ h.next[h.root] = Nil)
  /\ \A n \in M :
       /\ \A i \in 1..Len(Children(h, n)) :
            LET c == Children(h, n)[i] IN
            /\ h.parent[c] = n
            /\ key[n] <= key[c]                                   \* heap order
            /\ h.prev[c] = (IF i = 1 THEN Nil ELSE Children(h, n)[i - 1])
       /\ h.child[n] # Nil => h.prev[h.child[n]] = Nil
  \* nodes outside the heap carry no links
  /\ \A n \in (1..N) \ M : h.parent[n] = Nil /\ h.prev[n] = Nil /\ h.next[n] = Nil /\ h.child[n] = Nil
  \* the root is a minimum
  /\ \A n \in M : key[h.root] <= key[n]
=============================================================================
