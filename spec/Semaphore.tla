------------------------------ MODULE Semaphore ------------------------------
(***************************************************************************)
(* Implementation-shaped model of futures_intrusive::sync::GenericSemaphore*)
(* and GenericSharedSemaphore (src/sync/semaphore.rs): both share          *)
(* SemaphoreState, so one model serves both flavours.                      *)
(*                                                                         *)
(*   Create(f, n)     acquire(n)                      (no lock taken)      *)
(*   Poll(f, w)       AcquireFuture::poll   -> SemaphoreState::try_acquire *)
(*   PollDone(f)      poll after completion -> panics                      *)
(*   Drop(f)          AcquireFuture::drop   -> remove_waiter               *)
(*   TryAcquire(n)    try_acquire           -> try_acquire_sync            *)
(*   Release(n)       release(n)                                           *)
(*   DropRel(a)       Releaser::drop of a releaser armed with a permits    *)
(*   Disarm(a)        Releaser::disarm                                     *)
(*   Permits          permits()                                            *)
(*                                                                         *)
(* All wake-ups happen inside the critical section (wake_by_ref under the  *)
(* lock), so there is no separate delivery action.                         *)
(*                                                                         *)
(* FixA / FixB select the repaired behaviour for two lost-wake-up defects  *)
(* of the pinned revision (see DESIGN.md, D1a / D1b):                      *)
(*   FixA: remove_waiter of a *Waiting* node calls wakeup_waiters()        *)
(*   FixB: an unfair Notified node that finds too few permits calls        *)
(*         wakeup_waiters() before it re-queues itself                     *)
(***************************************************************************)
EXTENDS SemObs, Json

CONSTANTS MaxP,      \* bound on permits in circulation (finite state space)
          MaxRels,   \* bound on simultaneously live releasers
          Reqs,      \* request sizes a client may use
          FixA, FixB

VARIABLES permits, st, req, task, q, rels, evt

implVars == <<permits, st, req, task, q, rels>>
vars == <<implVars, obsVars, evt>>

View == [permits |-> permits, st |-> st, req |-> req, task |-> task, q |-> q, rels |-> rels,
         term |-> [f \in Slots |-> st[f] = "done"],
         pub |-> [permits |-> permits],
         oA |-> oA, oReq |-> oReq, oLastW |-> oLastW, oWoken |-> oWoken, oOrd |-> oOrd,
         oRels |-> oRels, oLedger |-> oLedger, bad |-> bad]

Consts == [K |-> K, Fair |-> Fair, Wk |-> SetToSortedSeq({IF w = "A" THEN 1 ELSE 2 : w \in Wk}),
           Init0 |-> Init0, MaxReq |-> MaxReq, MaxP |-> MaxP, MaxRels |-> MaxRels,
           Reqs |-> SetToSortedSeq(Reqs), FixA |-> FixA, FixB |-> FixB]

Init == /\ permits = Init0
        /\ st = [f \in Slots |-> "none"]
        /\ req = [f \in Slots |-> 0]
        /\ task = [f \in Slots |-> "-"]
        /\ q = <<>>
        /\ rels = [a \in Amts |-> 0]
        /\ evt = [op |-> "init"]
        /\ ObsInit

Emit(e) ==
  LET full == e @@ [term |-> SetToSortedSeq({f \in Slots : st'[f] = "done"}),
                    pub |-> [permits |-> permits'],
                    q |-> q', nst |-> st']
  IN evt' = full /\ ObsStep(full)

(* SemaphoreState::wakeup_waiters: walk from the oldest waiter while the   *)
(* remaining permits cover the request; unfair: unlink every notified      *)
(* waiter; fair: notify at most the head and keep it linked.               *)
RECURSIVE Wake(_, _, _, _, _)
Wake(avail, s, t, qq, wk) ==
  IF qq = <<>> THEN [st |-> s, q |-> qq, wakes |-> wk]
  ELSE LET h == Head(qq) IN
    IF avail < req[h] THEN [st |-> s, q |-> qq, wakes |-> wk]
    ELSE LET newly == s[h] # "notified"
             s2 == [s EXCEPT ![h] = "notified"]
             wk2 == IF newly /\ t[h] # "-" THEN Append(wk, <<h, t[h]>>) ELSE wk
         IN IF Fair THEN [st |-> s2, q |-> qq, wakes |-> wk2]
            ELSE Wake(avail - req[h], s2, t, Tail(qq), wk2)

NoWake(s, qq) == [st |-> s, q |-> qq, wakes |-> <<>>]

TrySync(n) == permits >= n /\ (~Fair \/ q = <<>> \/ n = 0)
NRels == SumOver(rels, Amts)
InCirculation == permits + SumOver([a \in Amts |-> a * rels[a]], Amts)

Create(f, n) ==
  /\ st[f] = "none" /\ \A g \in Slots : g < f => st[g] # "none"
  /\ st' = [st EXCEPT ![f] = "new"] /\ req' = [req EXCEPT ![f] = n]
  /\ UNCHANGED <<permits, task, q, rels>>
  /\ Emit([op |-> "create", f |-> f, n |-> n])

Poll(f, w) ==
  /\ st[f] \in {"new", "waiting", "notified"}
  /\ LET n == req[f]
         r ==
       CASE st[f] = "new" ->
              IF TrySync(n)
              THEN [permits |-> permits - n, st |-> [st EXCEPT ![f] = "done"], task |-> task, q |-> q,
                    res |-> "ready", wakes |-> <<>>]
              ELSE [permits |-> permits, st |-> [st EXCEPT ![f] = "waiting"], task |-> [task EXCEPT ![f] = w],
                    q |-> Append(q, f), res |-> "pending", wakes |-> <<>>]
         [] st[f] = "waiting" ->
              IF ~Fair /\ permits >= n
              THEN [permits |-> permits - n, st |-> [st EXCEPT ![f] = "done"], task |-> task, q |-> Rm(q, f),
                    res |-> "ready", wakes |-> <<>>]
              ELSE [permits |-> permits, st |-> st, task |-> [task EXCEPT ![f] = w], q |-> q,
                    res |-> "pending", wakes |-> <<>>]
         [] st[f] = "notified" ->
              IF permits >= n
              THEN LET q1 == IF Fair THEN Rm(q, f) ELSE q
                       s1 == [st EXCEPT ![f] = "done"]
                       x  == IF Fair THEN Wake(permits - n, s1, task, q1, <<>>) ELSE NoWake(s1, q1)
                   IN [permits |-> permits - n, st |-> x.st, task |-> task, q |-> x.q,
                       res |-> "ready", wakes |-> x.wakes]
              ELSE \* unfair only (assert!(!is_fair)): go back to the end of the queue
                   LET x == IF FixB THEN Wake(permits, st, task, q, <<>>) ELSE NoWake(st, q)
                   IN [permits |-> permits, st |-> [x.st EXCEPT ![f] = "waiting"], task |-> [task EXCEPT ![f] = w],
                       q |-> Append(x.q, f), res |-> "pending", wakes |-> x.wakes]
     IN /\ permits' = r.permits /\ st' = r.st /\ task' = r.task /\ q' = r.q
        /\ rels' = IF r.res = "ready" THEN [rels EXCEPT ![n] = @ + 1] ELSE rels
        /\ UNCHANGED req
        /\ (r.res = "ready" => NRels < MaxRels)
        /\ Emit([op |-> "poll", f |-> f, w |-> w, res |-> r.res, wakes |-> r.wakes])

PollDone(f) ==
  /\ st[f] = "done"
  /\ UNCHANGED implVars
  /\ Emit([op |-> "poll_done", f |-> f, res |-> "panic"])

Drop(f) ==
  /\ st[f] # "none"
  /\ LET s0 == [st EXCEPT ![f] = "none"]
         x ==
       CASE st[f] = "notified" -> Wake(permits, s0, task, IF Fair THEN Rm(q, f) ELSE q, <<>>)
         [] st[f] = "waiting" -> IF FixA THEN Wake(permits, s0, task, Rm(q, f), <<>>) ELSE NoWake(s0, Rm(q, f))
         [] OTHER -> NoWake(s0, q)
     IN /\ st' = x.st /\ q' = x.q
        /\ task' = [task EXCEPT ![f] = "-"] /\ req' = [req EXCEPT ![f] = 0]
        /\ UNCHANGED <<permits, rels>>
        /\ Emit([op |-> "drop", f |-> f, wakes |-> x.wakes])

TryAcquire(n) ==
  IF TrySync(n)
  THEN /\ NRels < MaxRels
       /\ permits' = permits - n /\ rels' = [rels EXCEPT ![n] = @ + 1]
       /\ UNCHANGED <<st, req, task, q>>
       /\ Emit([op |-> "try_acquire", n |-> n, res |-> "some"])
  ELSE /\ UNCHANGED implVars
       /\ Emit([op |-> "try_acquire", n |-> n, res |-> "none"])

\* SemaphoreState::release
Rel(n) == IF n = 0 THEN [permits |-> permits, st |-> st, q |-> q, wakes |-> <<>>]
          ELSE LET x == Wake(permits + n, st, task, q, <<>>)
               IN [permits |-> permits + n, st |-> x.st, q |-> x.q, wakes |-> x.wakes]

Release(n) ==
  /\ InCirculation + n <= MaxP
  /\ LET x == Rel(n) IN
     /\ permits' = x.permits /\ st' = x.st /\ q' = x.q
     /\ UNCHANGED <<req, task, rels>>
     /\ Emit([op |-> "release", n |-> n, wakes |-> x.wakes])

DropRel(a) ==
  /\ rels[a] > 0
  /\ LET x == Rel(a) IN
     /\ permits' = x.permits /\ st' = x.st /\ q' = x.q
     /\ rels' = [rels EXCEPT ![a] = @ - 1]
     /\ UNCHANGED <<req, task>>
     /\ Emit([op |-> "drop_releaser", a |-> a, wakes |-> x.wakes])

Disarm(a) ==
  /\ rels[a] > 0
  /\ rels' = [[rels EXCEPT ![a] = @ - 1] EXCEPT ![0] = @ + 1]
  /\ UNCHANGED <<permits, st, req, task, q>>
  /\ Emit([op |-> "disarm", a |-> a, res |-> "ok", val |-> a])

Permits == UNCHANGED implVars /\ Emit([op |-> "permits", res |-> "ok", val |-> permits])

Next == \/ \E f \in Slots : \/ \E n \in Reqs : Create(f, n)
                            \/ Drop(f) \/ PollDone(f) \/ \E w \in Wk : Poll(f, w)
        \/ \E n \in Reqs : TryAcquire(n)
        \/ \E n \in Reqs \ {0} : Release(n)
        \/ \E a \in Amts : DropRel(a) \/ Disarm(a)
        \/ Permits

Spec == Init /\ [][Next]_vars

TypeOK == /\ permits \in 0..MaxP
          /\ st \in [Slots -> {"none", "new", "waiting", "notified", "done"}]
          /\ task \in [Slots -> Wk \cup {"-"}]
          /\ SeqSet(q) \subseteq Slots

QueueOK == /\ NoDup(q)
           /\ \A f \in Slots : InSeq(q, f) <=> (st[f] = "waiting" \/ (Fair /\ st[f] = "notified"))
           /\ \A f \in Slots : st[f] \in {"waiting", "notified"} => task[f] # "-"

Refines == /\ permits = oLedger
           /\ rels = oRels
           /\ \A f \in Slots : /\ (oA[f] = "none") = (st[f] = "none")
                               /\ (oA[f] = "new") = (st[f] = "new")
                               /\ (oA[f] = "pending") = (st[f] \in {"waiting", "notified"})
                               /\ (oA[f] = "done") = (st[f] = "done")
                               /\ st[f] # "none" => req[f] = oReq[f]
                               \* a waiter is Notified exactly while it holds an unconsumed wake-up
                               /\ (st[f] = "notified") = (oA[f] = "pending" /\ oWoken[f])
           \* the client-level arrival order is the queue order (notified unfair waiters are unlinked)
           /\ q = SelectSeq(oOrd, LAMBDA f : st[f] = "waiting" \/ (Fair /\ st[f] = "notified"))

EdgeOut == PrintT(<<"EDGE", ToJson([src |-> View, evt |-> evt', dst |-> View'])>>)
ASSUME PrintT(<<"CONST", ToJson(Consts)>>)
=============================================================================
