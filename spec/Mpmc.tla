-------------------------------- MODULE Mpmc --------------------------------
(***************************************************************************)
(* Implementation-shaped model of the MPMC channel: ChannelState in        *)
(* src/channel/mpmc.rs, the send / receive futures of channel_future.rs,   *)
(* ChannelStream / SharedStream, and the shared Sender / Receiver handles. *)
(* One action per critical section:                                        *)
(*   CreateSend(s)   send(v)              PollSend(s,w)  send_or_register  *)
(*   CancelSend(s)   ChannelSendFuture::cancel                             *)
(*   DropSend(s)     remove_send_waiter (+ the value still in the node)    *)
(*   CreateRecv(r)   receive()            PollRecv(r,w)  receive_or_register*)
(*   DropRecv(r)     remove_receive_waiter (a Notified node forwards)      *)
(*   TrySend TryRecv Close                                                 *)
(*   CreateStream StreamNext(w) DropStream   (inner future = slot XR)      *)
(*   CloneSender DropSender CloneReceiver DropReceiver   (Shared only;     *)
(*      the last handle of a side closes, the last receiver also clears)   *)
(*   Destroy         the channel itself is dropped (buffer contents)       *)
(*   Deliver(w)      a waker taken under the lock is invoked after it      *)
(* Wake-ups of send / receive / try_* / receive-future drop are taken      *)
(* under the lock and delivered after it (`taken`); close() wakes inside   *)
(* the lock (`wakes`).                                                     *)
(***************************************************************************)
EXTENDS MpmcObs, Json

CONSTANTS SeqMode, MaxInflight, MaxH, WithStream, WithCancel,
          SplitDrop   \* TRUE: the drop of a last handle is three separately scheduled steps, as in the code:
                      \* fetch_sub (Dec*), close() (LateClose*), clear() (LateClear); model-level only

VARIABLES closed, buf,
          rst, rfin, rtask, rq,     \* receive futures: PollState, terminated flag, stored waker, queue
          sst, sfin, stask, sval, sq,
          xs,                       \* stream: "none" | "open" | "term"
          senders, receivers,       \* shared handle counts
          dead,                     \* the channel has been destroyed
          evt

implVars == <<closed, buf, rst, rfin, rtask, rq, sst, sfin, stask, sval, sq, xs, senders, receivers, dead>>
vars == <<implVars, obsVars, evt>>

RTerm == {r \in 1..NR : rfin[r]} \cup (IF xs = "term" THEN {XR} ELSE {})

View == [closed |-> closed, buflen |-> Len(buf), buf |-> buf,
         rst |-> rst, rtask |-> rtask, rq |-> rq,
         sst |-> sst, stask |-> stask, sval |-> sval, sq |-> sq,
         sterm |-> [s \in S |-> sfin[s]], rterm |-> [r \in R |-> r \in RTerm],
         xs |-> xs, senders |-> senders, receivers |-> receivers, dead |-> dead,
         oSA |-> oSA, oRA |-> oRA, oSLastW |-> oSLastW, oSWoken |-> oSWoken, oRLastW |-> oRLastW,
         oRWoken |-> oRWoken, oInfl |-> oInfl, oSVal |-> oSVal, oIn |-> oIn, oOrder |-> oOrder,
         oAcc |-> oAcc, oClosed |-> oClosed, oSenders |-> oSenders, oReceivers |-> oReceivers, bad |-> bad]

Consts == [NS |-> NS, NR |-> NR, Cap |-> Cap, Wk |-> SetToSortedSeq({IF w = "A" THEN 1 ELSE 2 : w \in Wk}),
           MaxV |-> MaxV, Shared |-> Shared, SeqMode |-> SeqMode, MaxInflight |-> MaxInflight, MaxH |-> MaxH,
           WithStream |-> WithStream, WithCancel |-> WithCancel, SplitDrop |-> SplitDrop]

Init == /\ closed = FALSE /\ buf = <<>>
        /\ rst = [r \in R |-> "none"] /\ rfin = [r \in R |-> FALSE] /\ rtask = [r \in R |-> "-"] /\ rq = <<>>
        /\ sst = [s \in S |-> "none"] /\ sfin = [s \in S |-> FALSE] /\ stask = [s \in S |-> "-"]
        /\ sval = [s \in S |-> 0] /\ sq = <<>>
        /\ xs = "none" /\ senders = 1 /\ receivers = 1 /\ dead = FALSE
        /\ evt = [op |-> "init"]
        /\ ObsInit

Emit(e) ==
  LET full == e @@ [dropped |-> <<>>,
                    sterm |-> SetToSortedSeq({s \in S : sfin'[s]}),
                    rterm |-> SetToSortedSeq(RTerm'),
                    closed |-> closed',
                    rq |-> rq', sq |-> sq', rnst |-> rst', snst |-> sst']
  IN evt' = full /\ ObsStep(full)

InUse == SeqSet(buf) \cup {sval[s] : s \in S}
Free == Vals \ InUse
MinFree == CHOOSE v \in Free : \A u \in Free : v <= u
CanPush == Len(buf) < Cap
\* receiver handles a client can call receive() / try_receive() / clone() on (a stream owns one handle)
PlainRecv == receivers - (IF Shared /\ xs # "none" THEN 1 ELSE 0)

\* return_oldest_receive_waiter: [st, tk, q, w]
ROR(st, tk, qq) ==
  IF qq = <<>> THEN [st |-> st, tk |-> tk, q |-> qq, w |-> <<>>]
  ELSE LET h == Head(qq) IN
       [st |-> [st EXCEPT ![h] = "notified"], tk |-> [tk EXCEPT ![h] = "-"], q |-> Tail(qq),
        w |-> IF tk[h] = "-" THEN <<>> ELSE << <<"r", h, tk[h]>> >>]

(* ---------------------------------------------------------------- senders *)
CreateSend(s) ==
  /\ sst[s] = "none" /\ \A t \in S : t < s => sst[t] # "none"
  /\ Free # {} /\ (Shared => senders > 0)
  /\ sst' = [sst EXCEPT ![s] = "unreg"] /\ sval' = [sval EXCEPT ![s] = MinFree]
  /\ UNCHANGED <<closed, buf, rst, rfin, rtask, rq, sfin, stask, sq, xs, senders, receivers, dead>>
  /\ Emit([op |-> "create_send", s |-> s, v |-> MinFree])

PollSend(s, w) ==
  /\ sst[s] # "none" /\ ~sfin[s]
  /\ CASE sst[s] = "unreg" ->
          IF closed
          THEN /\ sfin' = [sfin EXCEPT ![s] = TRUE] /\ sval' = [sval EXCEPT ![s] = 0]
               /\ UNCHANGED <<closed, buf, rst, rfin, rtask, rq, sst, stask, sq, xs, senders, receivers, dead>>
               /\ Emit([op |-> "poll_send", s |-> s, w |-> w, res |-> "err", rv |-> sval[s], taken |-> <<>>])
          ELSE IF ~CanPush
          THEN LET x == ROR(rst, rtask, rq) IN
               /\ stask' = [stask EXCEPT ![s] = w] /\ sst' = [sst EXCEPT ![s] = "reg"] /\ sq' = Append(sq, s)
               /\ rst' = x.st /\ rtask' = x.tk /\ rq' = x.q
               /\ UNCHANGED <<closed, buf, rfin, sfin, sval, xs, senders, receivers, dead>>
               /\ Emit([op |-> "poll_send", s |-> s, w |-> w, res |-> "pending", rv |-> 0, taken |-> x.w])
          ELSE LET x == ROR(rst, rtask, rq) IN
               /\ buf' = Append(buf, sval[s]) /\ sval' = [sval EXCEPT ![s] = 0]
               /\ sfin' = [sfin EXCEPT ![s] = TRUE]
               /\ rst' = x.st /\ rtask' = x.tk /\ rq' = x.q
               /\ UNCHANGED <<closed, rfin, sst, stask, sq, xs, senders, receivers, dead>>
               /\ Emit([op |-> "poll_send", s |-> s, w |-> w, res |-> "ok", rv |-> 0, taken |-> x.w])
     [] sst[s] = "reg" ->
          /\ stask' = [stask EXCEPT ![s] = w]
          /\ UNCHANGED <<closed, buf, rst, rfin, rtask, rq, sst, sfin, sval, sq, xs, senders, receivers, dead>>
          /\ Emit([op |-> "poll_send", s |-> s, w |-> w, res |-> "pending", rv |-> 0, taken |-> <<>>])
     [] sst[s] = "complete" ->
          /\ sfin' = [sfin EXCEPT ![s] = TRUE]
          /\ UNCHANGED <<closed, buf, rst, rfin, rtask, rq, sst, stask, sval, sq, xs, senders, receivers, dead>>
          /\ Emit([op |-> "poll_send", s |-> s, w |-> w, res |-> "ok", rv |-> 0, taken |-> <<>>])

PollSendDone(s) ==
  /\ sst[s] # "none" /\ sfin[s]
  /\ UNCHANGED implVars
  /\ Emit([op |-> "poll_send_done", s |-> s, res |-> "panic"])

CancelSend(s) ==
  /\ WithCancel /\ sst[s] # "none"
  /\ IF sfin[s]
     THEN UNCHANGED implVars /\ Emit([op |-> "cancel_send", s |-> s, res |-> "none", rv |-> 0])
     ELSE /\ sfin' = [sfin EXCEPT ![s] = TRUE]
          /\ sst' = [sst EXCEPT ![s] = IF @ = "reg" THEN "unreg" ELSE @]
          /\ sq' = Rm(sq, s) /\ sval' = [sval EXCEPT ![s] = 0]
          /\ UNCHANGED <<closed, buf, rst, rfin, rtask, rq, stask, xs, senders, receivers, dead>>
          /\ Emit([op |-> "cancel_send", s |-> s, res |-> IF sval[s] # 0 THEN "some" ELSE "none", rv |-> sval[s]])

DropSend(s) ==
  /\ sst[s] # "none"
  /\ sst' = [sst EXCEPT ![s] = "none"] /\ sfin' = [sfin EXCEPT ![s] = FALSE]
  /\ stask' = [stask EXCEPT ![s] = "-"] /\ sval' = [sval EXCEPT ![s] = 0]
  /\ sq' = Rm(sq, s)
  /\ UNCHANGED <<closed, buf, rst, rfin, rtask, rq, xs, senders, receivers, dead>>
  /\ Emit([op |-> "drop_send", s |-> s, dropped |-> IF sval[s] # 0 THEN <<sval[s]>> ELSE <<>>])

(* -------------------------------------------------------------- receivers *)
\* ChannelState::try_receive: [ok, v, buf, sst, stask, sval, sq, w]
TR ==
  IF buf # <<>> THEN
     IF sq # <<>> THEN LET h == Head(sq) IN     \* try_copy_value_from_oldest_waiter
          [ok |-> TRUE, v |-> Head(buf), buf |-> Append(Tail(buf), sval[h]),
           sst |-> [sst EXCEPT ![h] = "complete"], stask |-> [stask EXCEPT ![h] = "-"],
           sval |-> [sval EXCEPT ![h] = 0], sq |-> Tail(sq),
           w |-> IF stask[h] = "-" THEN <<>> ELSE << <<"s", h, stask[h]>> >>]
     ELSE [ok |-> TRUE, v |-> Head(buf), buf |-> Tail(buf), sst |-> sst, stask |-> stask, sval |-> sval,
           sq |-> sq, w |-> <<>>]
  ELSE IF sq # <<>> THEN LET h == Head(sq) IN   \* try_take_value_from_sender (capacity 0)
          [ok |-> TRUE, v |-> sval[h], buf |-> buf,
           sst |-> [sst EXCEPT ![h] = "complete"], stask |-> [stask EXCEPT ![h] = "-"],
           sval |-> [sval EXCEPT ![h] = 0], sq |-> Tail(sq),
           w |-> IF stask[h] = "-" THEN <<>> ELSE << <<"s", h, stask[h]>> >>]
  ELSE [ok |-> FALSE, v |-> 0, buf |-> buf, sst |-> sst, stask |-> stask, sval |-> sval, sq |-> sq, w |-> <<>>]

\* receive_or_register on slot r: [res, v, taken, rst_r, reg]
CreateRecv(r) ==
  /\ r \in 1..NR /\ rst[r] = "none" /\ \A t \in 1..NR : t < r => rst[t] # "none"
  /\ (Shared => PlainRecv > 0)
  /\ rst' = [rst EXCEPT ![r] = "unreg"]
  /\ UNCHANGED <<closed, buf, rfin, rtask, rq, sst, sfin, stask, sval, sq, xs, senders, receivers, dead>>
  /\ Emit([op |-> "create_recv", r |-> r])

\* the common part of ChannelReceiveFuture::poll for slot r; fin(res) tells what happens to the slot
RecvCore(r, w, opname, isStream) ==
  IF rst[r] = "reg"
  THEN /\ rtask' = [rtask EXCEPT ![r] = w]
       /\ UNCHANGED <<closed, buf, rst, rfin, rq, sst, sfin, stask, sval, sq, xs, senders, receivers, dead>>
       /\ Emit(IF isStream THEN [op |-> opname, w |-> w, res |-> "pending", v |-> 0, taken |-> <<>>]
               ELSE [op |-> opname, r |-> r, w |-> w, res |-> "pending", v |-> 0, taken |-> <<>>])
  ELSE LET t == TR IN
       IF t.ok
       THEN /\ buf' = t.buf /\ sst' = t.sst /\ stask' = t.stask /\ sval' = t.sval /\ sq' = t.sq
            /\ rst' = [rst EXCEPT ![r] = IF isStream THEN "none" ELSE "unreg"]
            /\ rfin' = [rfin EXCEPT ![r] = ~isStream]
            /\ UNCHANGED <<closed, rtask, rq, sfin, xs, senders, receivers, dead>>
            /\ Emit(IF isStream THEN [op |-> opname, w |-> w, res |-> "some", v |-> t.v, taken |-> t.w]
                    ELSE [op |-> opname, r |-> r, w |-> w, res |-> "some", v |-> t.v, taken |-> t.w])
       ELSE IF closed
       THEN /\ rst' = [rst EXCEPT ![r] = IF isStream THEN "none" ELSE "unreg"]
            /\ rfin' = [rfin EXCEPT ![r] = ~isStream]
            /\ xs' = IF isStream THEN "term" ELSE xs
            /\ UNCHANGED <<closed, buf, rtask, rq, sst, sfin, stask, sval, sq, senders, receivers, dead>>
            /\ Emit(IF isStream THEN [op |-> opname, w |-> w, res |-> "none", v |-> 0, taken |-> <<>>]
                    ELSE [op |-> opname, r |-> r, w |-> w, res |-> "none", v |-> 0, taken |-> <<>>])
       ELSE /\ rtask' = [rtask EXCEPT ![r] = w] /\ rst' = [rst EXCEPT ![r] = "reg"] /\ rq' = Append(rq, r)
            /\ UNCHANGED <<closed, buf, rfin, sst, sfin, stask, sval, sq, xs, senders, receivers, dead>>
            /\ Emit(IF isStream THEN [op |-> opname, w |-> w, res |-> "pending", v |-> 0, taken |-> <<>>]
                    ELSE [op |-> opname, r |-> r, w |-> w, res |-> "pending", v |-> 0, taken |-> <<>>])

PollRecv(r, w) == r \in 1..NR /\ rst[r] # "none" /\ ~rfin[r] /\ RecvCore(r, w, "poll_recv", FALSE)

PollRecvDone(r) ==
  /\ r \in 1..NR /\ rst[r] # "none" /\ rfin[r]
  /\ UNCHANGED implVars
  /\ Emit([op |-> "poll_recv_done", r |-> r, res |-> "panic"])

\* remove_receive_waiter for slot r (the slot becomes free): [rst, rtask, rq, w]
RemoveRecv(r, st0, tk0, q0) ==
  IF st0[r] = "notified" /\ ~rfin[r]
  THEN LET x == ROR([st0 EXCEPT ![r] = "none"], tk0, q0) IN
       [st |-> x.st, tk |-> [x.tk EXCEPT ![r] = "-"], q |-> x.q, w |-> x.w]
  ELSE [st |-> [st0 EXCEPT ![r] = "none"], tk |-> [tk0 EXCEPT ![r] = "-"], q |-> Rm(q0, r), w |-> <<>>]

DropRecv(r) ==
  /\ r \in 1..NR /\ rst[r] # "none"
  /\ LET x == RemoveRecv(r, rst, rtask, rq) IN
     /\ rst' = x.st /\ rtask' = x.tk /\ rq' = x.q /\ rfin' = [rfin EXCEPT ![r] = FALSE]
     /\ UNCHANGED <<closed, buf, sst, sfin, stask, sval, sq, xs, senders, receivers, dead>>
     /\ Emit([op |-> "drop_recv", r |-> r, taken |-> x.w])

(* ------------------------------------------------------ try_send / try_recv *)
TrySend ==
  /\ Cap > 0 /\ Free # {} /\ (Shared => senders > 0)
  /\ IF closed
     THEN UNCHANGED implVars /\ Emit([op |-> "try_send", v |-> MinFree, res |-> "closed", rv |-> MinFree, taken |-> <<>>])
     ELSE IF CanPush
     THEN LET x == ROR(rst, rtask, rq) IN
          /\ buf' = Append(buf, MinFree) /\ rst' = x.st /\ rtask' = x.tk /\ rq' = x.q
          /\ UNCHANGED <<closed, rfin, sst, sfin, stask, sval, sq, xs, senders, receivers, dead>>
          /\ Emit([op |-> "try_send", v |-> MinFree, res |-> "ok", rv |-> 0, taken |-> x.w])
     ELSE UNCHANGED implVars /\ Emit([op |-> "try_send", v |-> MinFree, res |-> "full", rv |-> MinFree, taken |-> <<>>])

TryRecv ==
  /\ (Shared => PlainRecv > 0)
  /\ LET t == TR IN
     IF t.ok
     THEN /\ buf' = t.buf /\ sst' = t.sst /\ stask' = t.stask /\ sval' = t.sval /\ sq' = t.sq
          /\ UNCHANGED <<closed, rst, rfin, rtask, rq, sfin, xs, senders, receivers, dead>>
          /\ Emit([op |-> "try_recv", res |-> "some", v |-> t.v, taken |-> t.w])
     ELSE UNCHANGED implVars
          /\ Emit([op |-> "try_recv", res |-> IF closed THEN "closed" ELSE "empty", v |-> 0, taken |-> <<>>])

(* ------------------------------------------------------------------- close *)
\* ChannelState::close on the given queues: wake receivers (oldest first), then senders
CloseCore ==
  [rst |-> [r \in R |-> IF InSeq(rq, r) THEN "unreg" ELSE rst[r]],
   rtask |-> [r \in R |-> IF InSeq(rq, r) THEN "-" ELSE rtask[r]],
   sst |-> [s \in S |-> IF InSeq(sq, s) THEN "unreg" ELSE sst[s]],
   stask |-> [s \in S |-> IF InSeq(sq, s) THEN "-" ELSE stask[s]],
   wakes |-> [i \in 1..Len(rq) |-> <<"r", rq[i], rtask[rq[i]]>>] \o [i \in 1..Len(sq) |-> <<"s", sq[i], stask[sq[i]]>>]]

Close ==
  /\ (Shared => senders > 0 \/ receivers > 0)
  /\ IF closed
     THEN UNCHANGED implVars /\ Emit([op |-> "close", res |-> "already", wakes |-> <<>>])
     ELSE LET c == CloseCore IN
          /\ closed' = TRUE /\ rst' = c.rst /\ rtask' = c.rtask /\ rq' = <<>>
          /\ sst' = c.sst /\ stask' = c.stask /\ sq' = <<>>
          /\ UNCHANGED <<buf, rfin, sfin, sval, xs, senders, receivers, dead>>
          /\ Emit([op |-> "close", res |-> "newly", wakes |-> c.wakes])

(* ------------------------------------------------------------------ stream *)
CreateStream ==
  /\ WithStream /\ xs = "none" /\ (Shared => PlainRecv > 0 /\ receivers < MaxH)
  /\ xs' = "open" /\ receivers' = IF Shared THEN receivers + 1 ELSE receivers
  /\ UNCHANGED <<closed, buf, rst, rfin, rtask, rq, sst, sfin, stask, sval, sq, senders, dead>>
  /\ Emit([op |-> "create_stream"])

StreamNext(w) ==
  /\ xs # "none"
  /\ IF xs = "term"
     THEN UNCHANGED implVars /\ Emit([op |-> "stream_next", w |-> w, res |-> "none", v |-> 0, taken |-> <<>>])
     ELSE RecvCore(XR, w, "stream_next", TRUE)

\* dropping a handle of the receiving side: [closed, rst, rtask, rq, sst, stask, sq, buf, wakes, dropped]
DropRecvHandle ==
  IF receivers = 1
  THEN LET c == IF closed THEN [rst |-> rst, rtask |-> rtask, sst |-> sst, stask |-> stask, wakes |-> <<>>] ELSE CloseCore
       IN [closed |-> TRUE, rst |-> c.rst, rtask |-> c.rtask, rq |-> IF closed THEN rq ELSE <<>>,
           sst |-> c.sst, stask |-> c.stask, sq |-> IF closed THEN sq ELSE <<>>,
           buf |-> <<>>, wakes |-> c.wakes, dropped |-> buf]
  ELSE [closed |-> closed, rst |-> rst, rtask |-> rtask, rq |-> rq, sst |-> sst, stask |-> stask, sq |-> sq,
        buf |-> buf, wakes |-> <<>>, dropped |-> <<>>]

DropStream ==
  /\ xs # "none"
  /\ LET h == IF Shared THEN DropRecvHandle
              ELSE [closed |-> closed, rst |-> rst, rtask |-> rtask, rq |-> rq, sst |-> sst, stask |-> stask,
                    sq |-> sq, buf |-> buf, wakes |-> <<>>, dropped |-> <<>>]
         x == RemoveRecv(XR, h.rst, h.rtask, h.rq)
     IN /\ closed' = h.closed /\ buf' = h.buf /\ sst' = h.sst /\ stask' = h.stask /\ sq' = h.sq
        /\ rst' = x.st /\ rtask' = x.tk /\ rq' = x.q
        /\ xs' = "none" /\ receivers' = IF Shared THEN receivers - 1 ELSE receivers
        /\ UNCHANGED <<rfin, sfin, sval, senders, dead>>
        /\ Emit([op |-> "drop_stream", taken |-> x.w, wakes |-> h.wakes, dropped |-> h.dropped])

(* ---------------------------------------------------------- shared handles *)
CloneSender ==
  /\ Shared /\ senders > 0 /\ senders < MaxH
  /\ senders' = senders + 1
  /\ UNCHANGED <<closed, buf, rst, rfin, rtask, rq, sst, sfin, stask, sval, sq, xs, receivers, dead>>
  /\ Emit([op |-> "clone_sender"])

DropSender ==
  /\ Shared /\ ~SplitDrop /\ senders > 0
  /\ senders' = senders - 1
  /\ IF senders = 1 /\ ~closed
     THEN LET c == CloseCore IN
          /\ closed' = TRUE /\ rst' = c.rst /\ rtask' = c.rtask /\ rq' = <<>>
          /\ sst' = c.sst /\ stask' = c.stask /\ sq' = <<>>
          /\ UNCHANGED <<buf, rfin, sfin, sval, xs, receivers, dead>>
          /\ Emit([op |-> "drop_sender", wakes |-> c.wakes])
     ELSE /\ UNCHANGED <<closed, buf, rst, rfin, rtask, rq, sst, sfin, stask, sval, sq, xs, receivers, dead>>
          /\ Emit([op |-> "drop_sender", wakes |-> <<>>])

CloneReceiver ==
  /\ Shared /\ PlainRecv > 0 /\ receivers < MaxH
  /\ receivers' = receivers + 1
  /\ UNCHANGED <<closed, buf, rst, rfin, rtask, rq, sst, sfin, stask, sval, sq, xs, senders, dead>>
  /\ Emit([op |-> "clone_receiver"])

DropReceiver ==
  \* a plain receiver handle (the stream owns one of the counted handles)
  /\ Shared /\ ~SplitDrop /\ PlainRecv > 0
  /\ LET h == DropRecvHandle IN
     /\ closed' = h.closed /\ buf' = h.buf /\ rst' = h.rst /\ rtask' = h.rtask /\ rq' = h.rq
     /\ sst' = h.sst /\ stask' = h.stask /\ sq' = h.sq
     /\ receivers' = receivers - 1
     /\ UNCHANGED <<rfin, sfin, sval, xs, senders, dead>>
     /\ Emit([op |-> "drop_receiver", wakes |-> h.wakes, dropped |-> h.dropped])

(* ----- the last-handle drop as the code really performs it ----------------
   GenericSender::drop     : fetch_sub; if it was the last: close()
   GenericReceiver::drop   : fetch_sub; if it was the last: close(); then lock().clear()
   Between the steps other threads run.  A pending step is encoded in the count:
   senders = -1: close() pending; receivers = -1: close() pending, -2: clear() pending.      *)
DecSender ==
  /\ Shared /\ SplitDrop /\ senders > 0
  /\ senders' = IF senders = 1 THEN 0 - 1 ELSE senders - 1
  /\ UNCHANGED <<closed, buf, rst, rfin, rtask, rq, sst, sfin, stask, sval, sq, xs, receivers, dead>>
  /\ Emit([op |-> "dec_sender"])
DecReceiver ==
  /\ Shared /\ SplitDrop /\ receivers > 0 /\ xs = "none"
  /\ receivers' = IF receivers = 1 THEN 0 - 1 ELSE receivers - 1
  /\ UNCHANGED <<closed, buf, rst, rfin, rtask, rq, sst, sfin, stask, sval, sq, xs, senders, dead>>
  /\ Emit([op |-> "dec_receiver"])
LateClose(side) ==
  /\ Shared /\ SplitDrop
  /\ IF side = "s" THEN senders = 0 - 1 /\ senders' = 0 /\ UNCHANGED receivers
                   ELSE receivers = 0 - 1 /\ receivers' = 0 - 2 /\ UNCHANGED senders
  /\ IF closed
     THEN /\ UNCHANGED <<closed, buf, rst, rfin, rtask, rq, sst, sfin, stask, sval, sq, xs, dead>>
          /\ Emit([op |-> "late_close", wakes |-> <<>>])
     ELSE LET c == CloseCore IN
          /\ closed' = TRUE /\ rst' = c.rst /\ rtask' = c.rtask /\ rq' = <<>>
          /\ sst' = c.sst /\ stask' = c.stask /\ sq' = <<>>
          /\ UNCHANGED <<buf, rfin, sfin, sval, xs, dead>>
          /\ Emit([op |-> "late_close", wakes |-> c.wakes])
LateClear ==
  /\ Shared /\ SplitDrop /\ receivers = 0 - 2
  /\ receivers' = 0 /\ buf' = <<>>
  /\ UNCHANGED <<closed, rst, rfin, rtask, rq, sst, sfin, stask, sval, sq, xs, senders, dead>>
  /\ Emit([op |-> "late_clear", dropped |-> buf])

Destroy ==
  /\ \A s \in S : sst[s] = "none" /\ \A r \in R : rst[r] = "none" /\ xs = "none"
  /\ (Shared => senders = 0 /\ receivers = 0)
  /\ dead' = TRUE /\ buf' = <<>>
  /\ UNCHANGED <<closed, rst, rfin, rtask, rq, sst, sfin, stask, sval, sq, xs, senders, receivers>>
  /\ Emit([op |-> "destroy", dropped |-> buf])

Deliver(w) ==
  /\ BagIn(oInfl, w)
  /\ UNCHANGED implVars
  /\ Emit([op |-> "wake", w |-> w])

Ops == \/ \E s \in S : CreateSend(s) \/ DropSend(s) \/ PollSendDone(s) \/ CancelSend(s) \/ \E w \in Wk : PollSend(s, w)
       \/ \E r \in 1..NR : CreateRecv(r) \/ DropRecv(r) \/ PollRecvDone(r) \/ \E w \in Wk : PollRecv(r, w)
       \/ TrySend \/ TryRecv \/ Close
       \/ CreateStream \/ DropStream \/ \E w \in Wk : StreamNext(w)
       \/ CloneSender \/ DropSender \/ CloneReceiver \/ DropReceiver
       \/ DecSender \/ DecReceiver \/ LateClose("s") \/ LateClose("r") \/ LateClear
       \/ Destroy

Next == /\ ~dead
        /\ IF SeqMode /\ BagSize(oInfl) > 0
           THEN \E w \in Wakers : Deliver(w)
           ELSE Ops \/ \E w \in Wakers : Deliver(w)

Spec == Init /\ [][Next]_vars

Bound == BagSize(oInfl) <= MaxInflight

(* ----- structural invariants ------------------------------------------- *)
TypeOK == /\ closed \in BOOLEAN /\ Len(buf) <= Cap
          /\ rst \in [R -> {"none", "unreg", "reg", "notified"}]
          /\ sst \in [S -> {"none", "unreg", "reg", "complete"}]
QueueOK == /\ NoDup(rq) /\ NoDup(sq) /\ NoDup(buf)
           /\ \A r \in R : InSeq(rq, r) <=> rst[r] = "reg"
           /\ \A s \in S : InSeq(sq, s) <=> sst[s] = "reg"
           /\ \A s \in S : (sval[s] # 0) <=> (sst[s] \in {"unreg", "reg"} /\ ~sfin[s])
           /\ \A s \in S : sval[s] # 0 => ~InSeq(buf, sval[s]) /\ \A t \in S : t # s => sval[t] # sval[s]
           /\ \A r \in R : rst[r] = "reg" => rtask[r] # "-"
           /\ \A s \in S : sst[s] = "reg" => stask[s] # "-"
           \* a free slot is never left unused while senders are parked
           /\ (Len(buf) < Cap) => sq = <<>>
           /\ closed => (rq = <<>> /\ sq = <<>>)
           /\ (buf # <<>> \/ sq # <<>>) => \A r \in R : rst[r] # "reg" \/ TRUE
NonNeg(x) == IF x < 0 THEN 0 ELSE x
Refines == /\ closed = oClosed /\ NonNeg(senders) = oSenders /\ NonNeg(receivers) = oReceivers
           /\ oIn = InUse \ {0}
           /\ ~closed => oOrder = buf \o [i \in 1..Len(sq) |-> sval[sq[i]]]
           /\ closed => oOrder = buf
           /\ \A s \in S : /\ (oSA[s] = "none") = (sst[s] = "none")
                           /\ (oSA[s] = "done") = sfin[s]
                           /\ sst[s] # "none" /\ ~sfin[s] /\ sval[s] # 0 => oSVal[s] = sval[s]
           /\ \A r \in 1..NR : /\ (oRA[r] = "none") = (rst[r] = "none")
                               /\ (oRA[r] = "done") = rfin[r]
           /\ (oRA[XR] = "none") = (xs = "none") /\ (oRA[XR] = "done") = (xs = "term")

EdgeOut == PrintT(<<"EDGE", ToJson([src |-> View, evt |-> evt', dst |-> View'])>>)
ASSUME PrintT(<<"CONST", ToJson(Consts)>>)
=============================================================================
