------------------------------- MODULE MpmcObs -------------------------------
(***************************************************************************)
(* Client-level observer for the MPMC channel (src/channel/mpmc.rs,        *)
(* channel_future.rs; borrowed GenericChannel and shared Sender/Receiver,  *)
(* ChannelStream / SharedStream).  It is an abstract bounded FIFO seen     *)
(* through the public API: which values were handed in, which came out,    *)
(* which were handed back or dropped, who was woken.                       *)
(* Properties C01, C08, C09, C10, C11, C17, C18.                           *)
(*                                                                         *)
(* Values are identified by small ids (the harness tags every payload and  *)
(* logs its Drop).  Receiver slot XR = NR+1 stands for the (single) stream.*)
(* Events (all may carry sterm, rterm, closed, rq, sq, rnst, snst, alloc,  *)
(* dropped = ids whose destructor ran inside the call):                    *)
(*   create_send s v | poll_send s w res rv taken | poll_send_done s res   *)
(*   cancel_send s res rv | drop_send s                                    *)
(*   create_recv r | poll_recv r w res v taken | poll_recv_done r res      *)
(*   drop_recv r taken | try_send v res rv taken | try_recv res v taken    *)
(*   close res wakes | create_stream | stream_next w res v taken           *)
(*   drop_stream taken wakes | clone_sender | drop_sender wakes            *)
(*   clone_receiver | drop_receiver wakes | destroy | wake w               *)
(*   dec_sender | dec_receiver | late_close wakes | late_clear   (the      *)
(*   three separately scheduled steps of a last-handle drop)               *)
(* res: ok err pending some none empty full closed newly already panic     *)
(***************************************************************************)
EXTENDS Common

CONSTANTS NS, NR, Cap, Wk, MaxV, Shared

S  == 1..NS
XR == NR + 1            \* receiver slot of the stream
R  == 1..XR
Vals == 1..MaxV
Wakers == ({"s"} \X S \X Wk) \cup ({"r"} \X R \X Wk)

VARIABLES oSA, oRA,              \* slot -> "none" | "new" | "pending" | "done"
          oSLastW, oSWoken, oRLastW, oRWoken,
          oInfl,                 \* bag of taken, undelivered wakers
          oSVal,                 \* sender slot -> value id (0 none)
          oIn,                   \* values inside the channel system (send future or buffer)
          oOrder,                \* values whose send took effect, in effect order
          oAcc,                  \* values whose send completed with Ok and that are still inside
          oClosed, oSenders, oReceivers,
          bad

obsVars == <<oSA, oRA, oSLastW, oSWoken, oRLastW, oRWoken, oInfl, oSVal, oIn, oOrder, oAcc,
             oClosed, oSenders, oReceivers, bad>>

ObsInit == /\ oSA = [s \in S |-> "none"] /\ oRA = [r \in R |-> "none"]
           /\ oSLastW = [s \in S |-> "-"] /\ oSWoken = [s \in S |-> FALSE]
           /\ oRLastW = [r \in R |-> "-"] /\ oRWoken = [r \in R |-> FALSE]
           /\ oInfl = EmptyBag(Wakers)
           /\ oSVal = [s \in S |-> 0]
           /\ oIn = {} /\ oOrder = <<>> /\ oAcc = {}
           /\ oClosed = FALSE /\ oSenders = 1 /\ oReceivers = 1
           /\ bad = {}

SPend == {s \in S : oSA[s] = "pending"}
RPend == {r \in R : oRA[r] = "pending"}
SHas(s) == oSWoken[s] \/ BagIn(oInfl, <<"s", s, oSLastW[s]>>)
RHas(r) == oRWoken[r] \/ BagIn(oInfl, <<"r", r, oRLastW[r]>>)
PosIn(o, v) == IF InSeq(o, v) THEN IndexOf(o, v) ELSE 0
Stored(o, v) == PosIn(o, v) > 0 /\ PosIn(o, v) <= Cap       \* the value is in the buffer
Prefix(o, n) == SubSeq(o, 1, IF Len(o) < n THEN Len(o) ELSE n)

Fld(e, k, d) == IF k \in DOMAIN e THEN e[k] ELSE d
Wakes(e) == Fld(e, "wakes", <<>>)
Taken(e) == Fld(e, "taken", <<>>)
Dropped(e) == Fld(e, "dropped", <<>>)

QueueCheck(e, SA, RA) ==
  "rq" \in DOMAIN e =>
  /\ NoDup(e.rq) /\ NoDup(e.sq)
  /\ \A i \in 1..Len(e.rq) : e.rq[i] \in R /\ RA[e.rq[i]] = "pending"
  /\ \A i \in 1..Len(e.sq) : e.sq[i] \in S /\ SA[e.sq[i]] = "pending"
  /\ \A r \in R : /\ (e.rnst[r] = "reg") <=> InSeq(e.rq, r)
                  /\ (RA[r] = "none") => (e.rnst[r] = "none")
  /\ \A s \in S : /\ (e.snst[s] = "reg") <=> InSeq(e.sq, s)
                  /\ (SA[s] = "none") <=> (e.snst[s] = "none")

(* the slot a receive-like event talks about *)
RSlot(e) == IF e.op \in {"create_stream", "stream_next", "drop_stream"} THEN XR ELSE e.r
IsRecv(e) == e.op \in {"poll_recv", "try_recv", "stream_next"}
ClosesNow(e) == \/ e.op \in {"close", "late_close"}
                \/ (e.op = "drop_sender" /\ oSenders = 1)
                \/ (e.op \in {"drop_receiver"} /\ oReceivers = 1)
                \/ (e.op = "drop_stream" /\ Shared /\ oReceivers = 1)
ClearsNow(e) == \/ e.op = "late_clear"
                \/ (e.op = "drop_receiver" /\ oReceivers = 1)
                \/ (e.op = "drop_stream" /\ Shared /\ oReceivers = 1)

StepBad(e, SA, RA, In, Ord, Cl) ==
  LET v == Fld(e, "v", 0)
      rv == Fld(e, "rv", 0)
      res == Fld(e, "res", "-")
      own == IF "s" \in DOMAIN e THEN oSVal[e.s] ELSE 0
      c01 == \/ (e.op \notin {"poll_send_done", "poll_recv_done"} /\ res = "panic")
             \/ ~QueueCheck(e, SA, RA)
      \* ---- C08: every value ends in exactly one place
      expectDrop ==
         CASE e.op = "drop_send" ->
                IF oSA[e.s] \in {"new", "pending"} /\ own \in oIn /\ ~Stored(oOrder, own) THEN {own} ELSE {}
           [] ClearsNow(e) -> SeqSet(Prefix(oOrder, Cap)) \cap oIn
           [] e.op = "destroy" -> oIn
           [] OTHER -> {}
      c08 == \/ (e.op = "create_send" /\ v \in oIn)
             \/ (e.op = "try_send" /\ v \in oIn)
             \/ (IsRecv(e) /\ res = "some" /\ v \notin oIn)                   \* duplicate / phantom
             \/ (e.op = "poll_send" /\ res = "err" /\ (rv # own \/ own \notin oIn))
             \/ (e.op = "cancel_send" /\ res = "some" /\ (rv # own \/ own \notin oIn))
             \/ (e.op = "cancel_send" /\ res = "none" /\ oSA[e.s] \in {"new", "pending"}
                   /\ own \in oIn /\ ~Stored(oOrder, own))
             \/ (e.op = "try_send" /\ res \in {"full", "closed"} /\ rv # v)
             \/ ("dropped" \in DOMAIN e /\ (SeqSet(e.dropped) # expectDrop \/ ~NoDup(e.dropped)))
      \* ---- C09: bounded FIFO
      c09 == \/ (IsRecv(e) /\ res = "some" /\ (oOrder = <<>> \/ Head(oOrder) # v))
             \/ (e.op = "poll_send" /\ res = "ok" /\ own \in oIn /\ ~Stored(Ord, own))
             \/ (e.op = "try_send" /\ res = "ok" /\ ~Stored(Ord, v))
      \* ---- C11: close semantics, handle lifecycle
      c11 == \* (threaded runs) the drop of the last handle of a side has returned: the channel is closed by now
             \/ (e.op = "drop_returned" /\ ~oClosed)
             \/ (e.op = "close" /\ res # (IF oClosed THEN "already" ELSE "newly"))
             \/ (e.op = "poll_send" /\ oClosed /\ res = "pending")
             \/ (e.op = "poll_send" /\ oClosed /\ res = "ok" /\ own \in oIn /\ ~Stored(oOrder, own))
             \/ (e.op = "poll_send" /\ res = "err" /\ ~oClosed)
             \/ (e.op = "try_send" /\ ((res = "closed") # oClosed))
             \/ (e.op \in {"poll_recv", "stream_next"} /\ res = "none" /\ oRA[RSlot(e)] # "done"
                   /\ ~(oClosed /\ oAcc = {}))
             \/ (e.op \in {"poll_recv", "stream_next"} /\ res = "pending" /\ oClosed)
             \/ (e.op = "try_recv" /\ res = "closed" /\ ~(oClosed /\ oAcc = {}))
             \/ (e.op = "try_recv" /\ res = "empty" /\ oClosed)
             \/ ("closed" \in DOMAIN e /\ e.closed # Cl)
             \* dropping the last receiver discards the buffered values immediately
             \/ (ClearsNow(e) /\ "dropped" \in DOMAIN e /\ SeqSet(e.dropped) # expectDrop)
      \* ---- C17: future / stream protocol
      c17 == \/ ("sterm" \in DOMAIN e /\ e.sterm # SetToSortedSeq({s \in S : SA[s] = "done"}))
             \/ ("rterm" \in DOMAIN e /\ e.rterm # SetToSortedSeq({r \in R : RA[r] = "done"}))
             \* threaded runs report is_terminated() of the polled future only
             \/ ("fterm" \in DOMAIN e /\ e.op = "poll_send" /\ e.fterm # (SA[e.s] = "done"))
             \/ ("fterm" \in DOMAIN e /\ e.op = "poll_recv" /\ e.fterm # (RA[e.r] = "done"))
             \/ (e.op \in {"poll_send_done", "poll_recv_done"} /\ res # "panic")
             \/ (e.op = "stream_next" /\ oRA[XR] = "done" /\ res # "none")
      c18 == "alloc" \in DOMAIN e /\ e.alloc # 0
      \* a threaded run in which every task ended up parked: a lost wake-up
      cdl == e.op = "abort" /\ "res" \in DOMAIN e /\ e.res = "deadlock"
  IN (IF cdl THEN {"C10"} ELSE {}) \cup (IF c01 THEN {"C01"} ELSE {}) \cup (IF c08 THEN {"C08"} ELSE {}) \cup (IF c09 THEN {"C09"} ELSE {})
     \cup (IF c11 THEN {"C11"} ELSE {}) \cup (IF c17 THEN {"C17"} ELSE {}) \cup (IF c18 THEN {"C18"} ELSE {})

ObsStep(e) ==
  LET v == Fld(e, "v", 0)
      res == Fld(e, "res", "-")
      own == IF "s" \in DOMAIN e THEN oSVal[e.s] ELSE 0
      SA == CASE e.op = "create_send" -> [oSA EXCEPT ![e.s] = "new"]
              [] e.op = "poll_send" -> [oSA EXCEPT ![e.s] = IF res \in {"ok", "err"} THEN "done"
                                                          ELSE IF res = "pending" THEN "pending" ELSE @]
              [] e.op = "cancel_send" -> [oSA EXCEPT ![e.s] = "done"]
              [] e.op = "drop_send" -> [oSA EXCEPT ![e.s] = "none"]
              [] OTHER -> oSA
      RA == CASE e.op = "create_recv" -> [oRA EXCEPT ![e.r] = "new"]
              [] e.op = "create_stream" -> [oRA EXCEPT ![XR] = "new"]
              [] e.op = "poll_recv" -> [oRA EXCEPT ![e.r] = IF res \in {"some", "none"} THEN "done"
                                                          ELSE IF res = "pending" THEN "pending" ELSE @]
              [] e.op = "stream_next" -> [oRA EXCEPT ![XR] = IF res = "some" THEN "new"
                                                            ELSE IF res = "none" THEN "done"
                                                            ELSE IF res = "pending" THEN "pending" ELSE @]
              [] e.op = "drop_recv" -> [oRA EXCEPT ![e.r] = "none"]
              [] e.op = "drop_stream" -> [oRA EXCEPT ![XR] = "none"]
              [] OTHER -> oRA
      Cl == oClosed \/ ClosesNow(e)
      \* values leaving the channel system with this event
      out == CASE IsRecv(e) /\ res = "some" -> {v}
               [] e.op = "poll_send" /\ res = "err" -> {own}
               [] e.op = "cancel_send" /\ res = "some" -> {own}
               \* (threaded runs do not observe destructors: a clear without a `dropped` field is taken to discard
               \* what the specification says it discards)
               [] ClearsNow(e) /\ "dropped" \notin DOMAIN e -> SeqSet(Prefix(oOrder, Cap)) \cap oIn
               [] OTHER -> SeqSet(Dropped(e))
      inn == CASE e.op = "create_send" -> {v}
               [] e.op = "try_send" /\ res = "ok" -> {v}
               [] OTHER -> {}
      In == (oIn \cup inn) \ out
      \* order: append when a send takes effect, remove what left, truncate on close
      O1 == CASE e.op = "poll_send" /\ res \in {"ok", "pending"} /\ oSA[e.s] = "new" -> Append(oOrder, own)
              [] e.op = "try_send" /\ res = "ok" -> Append(oOrder, v)
              [] OTHER -> oOrder
      \* closing rejects the values still parked in senders: only the buffered prefix stays in effect
      O2 == IF ClosesNow(e) /\ ~oClosed THEN Prefix(O1, Cap) ELSE O1
      Ord == SelectSeq(O2, LAMBDA x : x \notin out)
      Acc == ((oAcc \cup (IF e.op = "poll_send" /\ res = "ok" THEN {own} ELSE {})
                    \cup (IF e.op = "try_send" /\ res = "ok" THEN {v} ELSE {})) \cap In)
      SLW == CASE e.op = "poll_send" -> [oSLastW EXCEPT ![e.s] = e.w]
               [] e.op = "drop_send" -> [oSLastW EXCEPT ![e.s] = "-"]
               [] OTHER -> oSLastW
      RLW == CASE e.op \in {"poll_recv", "stream_next"} -> [oRLastW EXCEPT ![RSlot(e)] = e.w]
               [] e.op \in {"drop_recv", "drop_stream"} -> [oRLastW EXCEPT ![RSlot(e)] = "-"]
               [] OTHER -> oRLastW
      SW0 == IF e.op \in {"poll_send", "drop_send", "cancel_send"} THEN [oSWoken EXCEPT ![e.s] = FALSE] ELSE oSWoken
      RW0 == IF e.op \in {"poll_recv", "stream_next", "drop_recv", "drop_stream"}
             THEN [oRWoken EXCEPT ![RSlot(e)] = FALSE] ELSE oRWoken
      \* wake-ups delivered by this event: inside the lock (wakes) or a delivery event (wake)
      ws == IF e.op = "wake" THEN <<e.w>> ELSE Wakes(e)
      hits(k, i, lw, A) == A[i] = "pending" /\ \E j \in 1..Len(ws) : ws[j] = <<k, i, lw[i]>>
  IN
  /\ oSA' = SA /\ oRA' = RA /\ oClosed' = Cl /\ oIn' = In /\ oOrder' = Ord /\ oAcc' = Acc
  /\ oSLastW' = SLW /\ oRLastW' = RLW
  /\ oSWoken' = [s \in S |-> SW0[s] \/ hits("s", s, SLW, SA)]
  /\ oRWoken' = [r \in R |-> RW0[r] \/ hits("r", r, RLW, RA)]
  /\ oInfl' = IF e.op = "wake" THEN BagDel(oInfl, e.w) ELSE BagAdd(oInfl, Taken(e))
  \* a value that left the system is forgotten (ids are recycled)
  /\ oSVal' = LET SV == [s \in S |-> IF oSVal[s] \in out THEN 0 ELSE oSVal[s]] IN
              CASE e.op = "create_send" -> [SV EXCEPT ![e.s] = v]
                [] e.op = "drop_send" -> [SV EXCEPT ![e.s] = 0]
                [] OTHER -> SV
  /\ oSenders' = CASE e.op = "clone_sender" -> oSenders + 1
                   [] e.op \in {"drop_sender", "dec_sender"} -> oSenders - 1
                   [] OTHER -> oSenders
  /\ oReceivers' = CASE e.op = "clone_receiver" -> oReceivers + 1
                     [] e.op \in {"drop_receiver", "dec_receiver"} -> oReceivers - 1
                     [] e.op = "create_stream" /\ Shared -> oReceivers + 1
                     [] e.op = "drop_stream" /\ Shared -> oReceivers - 1
                     [] OTHER -> oReceivers
  /\ bad' = StepBad(e, SA, RA, In, Ord, Cl)

NoBad(id) == id \notin bad
C01 == NoBad("C01")
C08 == NoBad("C08")
C09 == NoBad("C09") /\ Cardinality(oAcc) <= Cap
\* C10: a value is available and receivers are pending => one of them holds a wake-up;
\* a pending sender whose value was accepted holds a wake-up; after close everybody does
C10 == /\ (oOrder # <<>> /\ RPend # {}) => \E r \in RPend : RHas(r)
       /\ \A s \in SPend : (oSVal[s] \notin oIn \/ Stored(oOrder, oSVal[s])) => SHas(s)
       /\ oClosed => (\A r \in RPend : RHas(r)) /\ (\A s \in SPend : SHas(s))
\* C11: step checks, plus: once the channel is closed (explicitly or by the last handle of a side)
\* every pending future has been woken
C11 == NoBad("C11") /\ (oClosed => (\A r \in RPend : RHas(r)) /\ (\A s \in SPend : SHas(s)))
C17 == NoBad("C17")
C18 == NoBad("C18")
=============================================================================
