---------------------------- MODULE SemaphoreLive ----------------------------
(***************************************************************************)
(* Liveness half of C06: K looping tasks; task t repeatedly acquires       *)
(* ReqOf[t] permits, holds them, releases them (drops the releaser); it    *)
(* polls again only when woken through the waker of its latest poll; it    *)
(* may give up a pending request a bounded number of times.                *)
(* Weak fairness on "a woken task polls" and "a holder releases".          *)
(*   the longest-waiting request eventually completes or is given up:      *)
(*   fair semaphore: every parked task eventually stops being parked;      *)
(*   unfair: whenever tasks are parked, eventually somebody holds permits  *)
(*   or nobody is parked (a large request may starve: allowed).            *)
(***************************************************************************)
EXTENDS Semaphore

CONSTANTS ReqOf, MaxGiveUps

\* request size of each task (cfg: ReqOf <- ReqOfDef)
ReqOfDef == <<2, 1, 1>>

VARIABLES pc, gu
lvars == <<vars, pc, gu>>

LInit == Init /\ pc = [t \in Slots |-> "idle"] /\ gu = 0

StartT(t) == /\ pc[t] = "idle" /\ st[t] = "none"
             /\ st' = [st EXCEPT ![t] = "new"] /\ req' = [req EXCEPT ![t] = ReqOf[t]]
             /\ UNCHANGED <<permits, task, q, rels>>
             /\ Emit([op |-> "create", f |-> t, n |-> ReqOf[t]])
             /\ pc' = [pc EXCEPT ![t] = "polling"] /\ UNCHANGED gu
PollT(t) == /\ pc[t] = "polling" \/ (pc[t] = "parked" /\ oWoken[t])
            /\ Poll(t, "A")
            /\ pc' = [pc EXCEPT ![t] = IF evt'.res = "ready" THEN "holding" ELSE "parked"]
            /\ UNCHANGED gu
ReleaseT(t) == pc[t] = "holding" /\ DropRel(ReqOf[t]) /\ pc' = [pc EXCEPT ![t] = "cleanup"] /\ UNCHANGED gu
Cleanup(t) == pc[t] = "cleanup" /\ Drop(t) /\ pc' = [pc EXCEPT ![t] = "idle"] /\ UNCHANGED gu
GiveUp(t) == pc[t] = "parked" /\ gu < MaxGiveUps /\ Drop(t) /\ pc' = [pc EXCEPT ![t] = "idle"] /\ gu' = gu + 1

LNext == \E t \in Slots : StartT(t) \/ PollT(t) \/ ReleaseT(t) \/ Cleanup(t) \/ GiveUp(t)

LiveSpec == /\ LInit /\ [][LNext]_lvars
            /\ \A t \in Slots : WF_lvars(PollT(t)) /\ WF_lvars(ReleaseT(t)) /\ WF_lvars(Cleanup(t))

Parked(t) == pc[t] = "parked"
FairProgress == \A t \in Slots : Parked(t) ~> ~Parked(t)
UnfairProgress == (\E t \in Slots : Parked(t)) ~> ((\E t \in Slots : pc[t] = "holding") \/ ~\E t \in Slots : Parked(t))
\* the longest-waiting request eventually completes (or is given up), both modes, provided
\* it fits at all and the others keep returning their permits
HeadProgress == \A t \in Slots : (Parked(t) /\ oOrd # <<>> /\ Head(oOrd) = t) ~> (~Parked(t) \/ Head(oOrd) # t)
=============================================================================
