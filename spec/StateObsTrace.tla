--------------------------- MODULE StateObsTrace ---------------------------
(***************************************************************************)
(* Observer-mode trace validation for the state broadcast channel: replays an execution      *)
(* recorded from the real code (NDJSON, one event per line, runs separated *)
(* by "run_start" events) through the client-level observer StateObs and       *)
(* evaluates every property in every state of the trace.  Nothing about    *)
(* the implementation is assumed: only the events the code produced.       *)
(***************************************************************************)
EXTENDS StateObs, Json, IOUtils, TLCExt

VARIABLES l      \* position in the recorded trace

Rec == ndJsonDeserialize(IOEnv.TRACE)

\* constants come from the header line of the trace (cfg: K <- TraceK, ...)
TraceK == Rec[1].consts.K
TraceShared == Rec[1].consts.Shared

tvars == <<obsVars, l>>

TraceInit == ObsInit /\ l = 1

TraceNext ==
  /\ l <= Len(Rec)
  /\ l' = l + 1
  /\ IF Rec[l].op = "run_start"
     THEN /\ oA' = [f \in Slots |-> "none"]
          /\ oLastW' = [f \in Slots |-> "-"]
          /\ oWoken' = [f \in Slots |-> FALSE]
          /\ oWant' = [f \in Slots |-> 0]
          /\ oPubN' = 0 /\ oLatest' = 0 /\ oCurId' = 0 /\ oMaxOld' = 0
          /\ oClosed' = FALSE /\ oSenders' = 1 /\ oReceivers' = 1
          /\ bad' = {}
     ELSE ObsStep(Rec[l])

TraceSpec == TraceInit /\ [][TraceNext]_tvars

\* the whole trace was consumed
TraceAccepted ==
  LET d == TLCGet("stats").diameter IN
  IF d - 1 = Len(Rec) THEN TRUE
  ELSE Print(<<"TRACE-REJECTED at line", d, IF d <= Len(Rec) THEN Rec[d] ELSE "eof">>, FALSE)

\* error traces print only the position and the verdict (ALIAS in the cfg)
TraceAlias == [l |-> l, bad |-> bad]
=============================================================================
