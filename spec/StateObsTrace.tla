--------------------------- MODULE StateObsTrace ---------------------------
(***************************************************************************)
(* Observer-mode trace validation for the state broadcast channel: replays an execution      *)
(* recorded from the real code (NDJSON, one event per line, runs separated *)
(* by "run_start" events) through the client-level observer StateObs and       *)
(* evaluates every property in every state of the trace.  Nothing about    *)
(* the implementation is assumed: only the events the code produced.       *)
(***************************************************************************)
EXTENDS StateObs, Json, IOUtils, TLCExt

VARIABLES l,     \* position in the recorded trace
          lin    \* calls (cid) of the current run that have taken effect

Rec == ndJsonDeserialize(IOEnv.TRACE)

\* constants come from the header line of the trace (cfg: K <- TraceK, ...)
TraceK == Rec[1].consts.K
TraceShared == Rec[1].consts.Shared

tvars == <<obsVars, l, lin>>

TraceInit == ObsInit /\ l = 1 /\ lin = {}

\* Linearization mode: a call the code ran as several critical sections (events sharing `cid`)
\* takes effect at one of them, chosen here; with NDInvs non-empty, branches breaking one of the
\* named invariants are dropped, and the trace is accepted iff some branch consumes it all.
CONSTANT NDInvs
ObsStutter == UNCHANGED <<oA, oLastW, oWoken, oWant, oPubN, oLatest, oCurId, oMaxOld, oClosed, oSenders, oReceivers>> /\ bad' = {}
InvNamed(n) == CASE n = "C01" -> C01
                 [] n = "C11" -> C11
                 [] n = "C13" -> C13
                 [] n = "C17" -> C17
                 [] n = "C18" -> C18

TraceNext ==
  /\ l <= Len(Rec)
  /\ l' = l + 1
  /\ IF Rec[l].op = "run_start"
     THEN /\ oA' = [f \in Slots |-> "none"]
          /\ oLastW' = [f \in Slots |-> "-"]
          /\ oWoken' = [f \in Slots |-> FALSE]
          /\ oWant' = [f \in Slots |-> 0]
          /\ oPubN' = 0 /\ oLatest' = 0 /\ oCurId' = 0 /\ oMaxOld' = 0
          /\ oClosed' = FALSE /\ oSenders' = 1 /\ oReceivers' = 1
          /\ bad' = {}
          /\ lin' = {}
     ELSE IF "cid" \notin DOMAIN Rec[l] THEN ObsStep(Rec[l]) /\ UNCHANGED lin
     ELSE \* one of several critical sections of one call: the call takes effect at one of them
          \/ (Rec[l].cid \notin lin /\ ObsStep(Rec[l]) /\ lin' = lin \cup {Rec[l].cid})
          \/ (Rec[l].cid \notin lin /\ ~Rec[l].last /\ ObsStutter /\ UNCHANGED lin)
          \/ (Rec[l].cid \in lin /\ ObsStutter /\ UNCHANGED lin)
  /\ \A n \in NDInvs : InvNamed(n)'

TraceSpec == TraceInit /\ [][TraceNext]_tvars

\* the whole trace was consumed
TraceAccepted ==
  LET d == TLCGet("stats").diameter IN
  IF d - 1 = Len(Rec) THEN TRUE
  ELSE Print(<<"TRACE-REJECTED at line", d, IF d <= Len(Rec) THEN Rec[d] ELSE "eof">>, FALSE)

\* error traces print only the position and the verdict (ALIAS in the cfg)
TraceAlias == [l |-> l, bad |-> bad]
=============================================================================
