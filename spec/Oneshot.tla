------------------------------- MODULE Oneshot -------------------------------
(***************************************************************************)
(* Implementation-shaped model of GenericOneshotChannel (oneshot.rs) and   *)
(* GenericOneshotBroadcastChannel (oneshot_broadcast.rs) and their shared  *)
(* handles.  Broadcast = TRUE: try_receive clones the value, the receiver  *)
(* handle is Clone.                                                        *)
(*   Send(v) Close Create(r) Poll(r,w) PollDone(r) Drop(r)                 *)
(*   DropSender, CloneReceiver, DropReceiver (Shared)   Destroy            *)
(* The last handle of a side closes the channel.  (The pinned revision of  *)
(* the broadcast flavour closes on *every* receiver drop: defect D3; the   *)
(* model describes the repaired behaviour, CountReceivers = TRUE.)         *)
(***************************************************************************)
EXTENDS OneshotObs, Json

CONSTANTS MaxV, MaxH, CountReceivers,
          SplitDrop   \* TRUE (broadcast): the drop of the last receiver handle is two separately scheduled
                      \* steps, as in the code: fetch_sub (DecReceiver), then close() (LateClose); model-level only

VARIABLES ful, value, st, fin, task, q, senders, receivers, dead, evt

implVars == <<ful, value, st, fin, task, q, senders, receivers, dead>>
vars == <<implVars, obsVars, evt>>

View == [ful |-> ful, hasval |-> value # 0, st |-> st, task |-> task, q |-> q,
         term |-> fin, closed |-> ful, senders |-> senders, receivers |-> receivers, dead |-> dead,
         value |-> value,
         oA |-> oA, oLastW |-> oLastW, oWoken |-> oWoken, oFul |-> oFul, oVal |-> oVal, oTaken |-> oTaken,
         oClosedEv |-> oClosedEv, oSenders |-> oSenders, oReceivers |-> oReceivers, bad |-> bad]

Consts == [K |-> K, Wk |-> SetToSortedSeq({IF w = "A" THEN 1 ELSE 2 : w \in Wk}), Broadcast |-> Broadcast,
           Shared |-> Shared, MaxV |-> MaxV, MaxH |-> MaxH, SplitDrop |-> SplitDrop]

Init == /\ ful = FALSE /\ value = 0
        /\ st = [f \in Slots |-> "none"] /\ fin = [f \in Slots |-> FALSE]
        /\ task = [f \in Slots |-> "-"] /\ q = <<>>
        /\ senders = 1 /\ receivers = 1 /\ dead = FALSE
        /\ evt = [op |-> "init"]
        /\ ObsInit

Emit(e) ==
  LET full == e @@ [term |-> SetToSortedSeq({f \in Slots : fin'[f]}),
                    closed |-> ful', q |-> q', nst |-> st']
  IN evt' = full /\ ObsStep(full)

\* wake_waiters: reverse_drain, oldest first, nodes -> Unregistered
WakeAll == [st |-> [f \in Slots |-> IF InSeq(q, f) THEN "unreg" ELSE st[f]],
            task |-> [f \in Slots |-> IF InSeq(q, f) THEN "-" ELSE task[f]],
            wakes |-> [i \in 1..Len(q) |-> <<q[i], task[q[i]]>>]]

Send(v) ==
  /\ (Shared => senders > 0)
  /\ IF ful
     THEN UNCHANGED implVars /\ Emit([op |-> "send", v |-> v, res |-> "err", rv |-> v, wakes |-> <<>>])
     ELSE LET x == WakeAll IN
          /\ ful' = TRUE /\ value' = v /\ st' = x.st /\ task' = x.task /\ q' = <<>>
          /\ UNCHANGED <<fin, senders, receivers, dead>>
          /\ Emit([op |-> "send", v |-> v, res |-> "ok", rv |-> 0, wakes |-> x.wakes])

DoClose(opname) ==
  IF ful
  THEN /\ UNCHANGED <<ful, value, st, task, q, fin, dead>>
       /\ Emit([op |-> opname, res |-> "already", wakes |-> <<>>])
  ELSE LET x == WakeAll IN
       /\ ful' = TRUE /\ st' = x.st /\ task' = x.task /\ q' = <<>>
       /\ UNCHANGED <<value, fin, dead>>
       /\ Emit([op |-> opname, res |-> "newly", wakes |-> x.wakes])

\* the borrowed channel has close(); the shared handles close only by being dropped
Close == ~Shared /\ UNCHANGED <<senders, receivers>> /\ DoClose("close")

Create(r) ==
  /\ st[r] = "none" /\ \A g \in Slots : g < r => st[g] # "none"
  /\ (Shared => receivers > 0)
  /\ st' = [st EXCEPT ![r] = "unreg"]
  /\ UNCHANGED <<ful, value, fin, task, q, senders, receivers, dead>>
  /\ Emit([op |-> "create", r |-> r])

Poll(r, w) ==
  /\ st[r] # "none" /\ ~fin[r]
  /\ IF st[r] = "reg"
     THEN /\ task' = [task EXCEPT ![r] = w]
          /\ UNCHANGED <<ful, value, st, fin, q, senders, receivers, dead>>
          /\ Emit([op |-> "poll", r |-> r, w |-> w, res |-> "pending", v |-> 0])
     ELSE IF value # 0
     THEN /\ value' = IF Broadcast THEN value ELSE 0
          /\ fin' = [fin EXCEPT ![r] = TRUE]
          /\ UNCHANGED <<ful, st, task, q, senders, receivers, dead>>
          /\ Emit([op |-> "poll", r |-> r, w |-> w, res |-> "some", v |-> value])
     ELSE IF ful
     THEN /\ fin' = [fin EXCEPT ![r] = TRUE]
          /\ UNCHANGED <<ful, value, st, task, q, senders, receivers, dead>>
          /\ Emit([op |-> "poll", r |-> r, w |-> w, res |-> "none", v |-> 0])
     ELSE /\ task' = [task EXCEPT ![r] = w] /\ st' = [st EXCEPT ![r] = "reg"] /\ q' = Append(q, r)
          /\ UNCHANGED <<ful, value, fin, senders, receivers, dead>>
          /\ Emit([op |-> "poll", r |-> r, w |-> w, res |-> "pending", v |-> 0])

PollDone(r) ==
  /\ st[r] # "none" /\ fin[r]
  /\ UNCHANGED implVars
  /\ Emit([op |-> "poll_done", r |-> r, res |-> "panic"])

Drop(r) ==
  /\ st[r] # "none"
  /\ st' = [st EXCEPT ![r] = "none"] /\ fin' = [fin EXCEPT ![r] = FALSE]
  /\ task' = [task EXCEPT ![r] = "-"] /\ q' = Rm(q, r)
  /\ UNCHANGED <<ful, value, senders, receivers, dead>>
  /\ Emit([op |-> "drop", r |-> r])

DropSender ==
  /\ Shared /\ senders > 0
  /\ senders' = senders - 1 /\ UNCHANGED receivers
  /\ LET x == IF ful THEN [st |-> st, task |-> task, wakes |-> <<>>] ELSE WakeAll IN
     /\ ful' = TRUE /\ st' = x.st /\ task' = x.task /\ q' = IF ful THEN q ELSE <<>>
     /\ UNCHANGED <<value, fin, dead>>
     /\ Emit([op |-> "drop_sender", wakes |-> x.wakes])

CloneReceiver ==
  /\ Shared /\ Broadcast /\ receivers > 0 /\ receivers < MaxH
  /\ receivers' = receivers + 1
  /\ UNCHANGED <<ful, value, st, fin, task, q, senders, dead>>
  /\ Emit([op |-> "clone_receiver"])

DropReceiver ==
  /\ Shared /\ ~SplitDrop /\ receivers > 0
  /\ receivers' = receivers - 1 /\ UNCHANGED senders
  /\ IF (receivers = 1 \/ ~CountReceivers) /\ ~ful
     THEN LET x == WakeAll IN
          /\ ful' = TRUE /\ st' = x.st /\ task' = x.task /\ q' = <<>>
          /\ UNCHANGED <<value, fin, dead>>
          /\ Emit([op |-> "drop_receiver", wakes |-> x.wakes])
     ELSE /\ UNCHANGED <<ful, value, st, fin, task, q, dead>>
          /\ Emit([op |-> "drop_receiver", wakes |-> <<>>])

(* GenericOneshotBroadcastReceiver::drop as the code performs it: fetch_sub; if it was the last
   handle: close().  A pending close() is encoded as receivers = -1.                             *)
DecReceiver ==
  /\ Shared /\ Broadcast /\ SplitDrop /\ receivers > 0
  /\ receivers' = IF receivers = 1 THEN 0 - 1 ELSE receivers - 1
  /\ UNCHANGED <<ful, value, st, fin, task, q, senders, dead>>
  /\ Emit([op |-> "dec_receiver"])
LateClose ==
  /\ Shared /\ SplitDrop /\ receivers = 0 - 1
  /\ receivers' = 0 /\ UNCHANGED senders
  /\ IF ful
     THEN /\ UNCHANGED <<ful, value, st, task, q, fin, dead>>
          /\ Emit([op |-> "late_close", wakes |-> <<>>])
     ELSE LET x == WakeAll IN
          /\ ful' = TRUE /\ st' = x.st /\ task' = x.task /\ q' = <<>>
          /\ UNCHANGED <<value, fin, dead>>
          /\ Emit([op |-> "late_close", wakes |-> x.wakes])

Destroy ==
  /\ \A r \in Slots : st[r] = "none"
  /\ (Shared => senders = 0 /\ receivers = 0)
  /\ dead' = TRUE /\ value' = 0
  /\ UNCHANGED <<ful, st, fin, task, q, senders, receivers>>
  /\ Emit([op |-> "destroy"])

Next == /\ ~dead
        /\ \/ \E v \in 1..MaxV : Send(v)
           \/ Close
           \/ \E r \in Slots : Create(r) \/ Drop(r) \/ PollDone(r) \/ \E w \in Wk : Poll(r, w)
           \/ DropSender \/ CloneReceiver \/ DropReceiver \/ Destroy
           \/ DecReceiver \/ LateClose

Spec == Init /\ [][Next]_vars

TypeOK == /\ ful \in BOOLEAN /\ value \in 0..MaxV
          /\ st \in [Slots -> {"none", "unreg", "reg"}]
QueueOK == /\ NoDup(q)
           /\ \A f \in Slots : InSeq(q, f) <=> st[f] = "reg"
           /\ \A f \in Slots : st[f] = "reg" => task[f] # "-"
           /\ ful => q = <<>>
           /\ value # 0 => ful
Refines == /\ ful = oFul /\ senders = oSenders
           /\ (IF receivers < 0 THEN 0 ELSE receivers) = oReceivers
           /\ (dead \/ ((value # 0) = (oVal # 0 /\ (Broadcast \/ ~oTaken))))
           /\ \A f \in Slots : /\ (oA[f] = "none") = (st[f] = "none")
                               /\ (oA[f] = "done") = fin[f]
                               /\ (oA[f] = "pending") = (~fin[f] /\ (st[f] = "reg" \/ (st[f] = "unreg" /\ oLastW[f] # "-")))

EdgeOut == PrintT(<<"EDGE", ToJson([src |-> View, evt |-> evt', dst |-> View'])>>)
ASSUME PrintT(<<"CONST", ToJson(Consts)>>)
=============================================================================
