----------------------------- MODULE HandleCount -----------------------------
(***************************************************************************)
(* The sender / receiver handle protocol of the shared channels (mpmc.rs,  *)
(* state_broadcast.rs, oneshot_broadcast.rs: `senders` / `receivers`       *)
(* counters, `clone` = fetch_add, `drop` = fetch_sub and, if it was the    *)
(* last handle of its side, `close()` as a separately scheduled step) for  *)
(* an ARBITRARY number of handles.  Mpmc / Oneshot / StateBroadcast.tla    *)
(* check the same protocol together with the channel state for at most 3   *)
(* handles per side with TLC; this module keeps only the counters and      *)
(* proves with Apalache that IndInv is inductive, hence (C11):             *)
(*   OnlyWhenOneSideGone : the implicit close never happens while a handle *)
(*                         of each side is still alive                     *)
(*   ClosedWhenSettled   : once a side is gone and its pending close() has *)
(*                         run, the channel is closed                      *)
(*   apalache-mc check --init=Init    --inv=Safe --length=0 HandleCount.tla *)
(*   apalache-mc check --init=IndInit --inv=Safe --length=1 HandleCount.tla *)
(***************************************************************************)
EXTENDS Integers

VARIABLES
  \* @type: Int;
  senders,
  \* @type: Int;
  receivers,
  \* @type: Bool;
  pendS,        \* the last sender is gone, its close() has not run yet
  \* @type: Bool;
  pendR,
  \* @type: Bool;
  closed

\* @type: <<Int, Int, Bool, Bool, Bool>>;
vars == <<senders, receivers, pendS, pendR, closed>>

ConstInit == TRUE

Init == senders = 1 /\ receivers = 1 /\ pendS = FALSE /\ pendR = FALSE /\ closed = FALSE

\* cloning needs a live handle of that side
CloneS == senders > 0 /\ senders' = senders + 1 /\ UNCHANGED <<receivers, pendS, pendR, closed>>
CloneR == receivers > 0 /\ receivers' = receivers + 1 /\ UNCHANGED <<senders, pendS, pendR, closed>>
\* fetch_sub; the thread that took the last handle will call close()
DropS == /\ senders > 0 /\ senders' = senders - 1
         /\ pendS' = (senders = 1) /\ UNCHANGED <<receivers, pendR, closed>>
DropR == /\ receivers > 0 /\ receivers' = receivers - 1
         /\ pendR' = (receivers = 1) /\ UNCHANGED <<senders, pendS, closed>>
LateCloseS == pendS /\ pendS' = FALSE /\ closed' = TRUE /\ UNCHANGED <<senders, receivers, pendR>>
LateCloseR == pendR /\ pendR' = FALSE /\ closed' = TRUE /\ UNCHANGED <<senders, receivers, pendS>>

Next == CloneS \/ CloneR \/ DropS \/ DropR \/ LateCloseS \/ LateCloseR \/ UNCHANGED vars

IndInv == /\ senders >= 0 /\ receivers >= 0
          /\ (pendS => senders = 0) /\ (pendR => receivers = 0)
          /\ (closed => (senders = 0 \/ receivers = 0))
          /\ ((senders = 0 /\ ~pendS) => closed)
          /\ ((receivers = 0 /\ ~pendR) => closed)

IndInit == /\ senders \in Int /\ receivers \in Int
           /\ pendS \in BOOLEAN /\ pendR \in BOOLEAN /\ closed \in BOOLEAN
           /\ IndInv

OnlyWhenOneSideGone == closed => (senders = 0 \/ receivers = 0)
ClosedWhenSettled == ((senders = 0 /\ ~pendS) \/ (receivers = 0 /\ ~pendR)) => closed
Safe == IndInv /\ OnlyWhenOneSideGone /\ ClosedWhenSettled
=============================================================================
