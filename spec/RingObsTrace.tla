--------------------------- MODULE RingObsTrace ---------------------------
(***************************************************************************)
(* Observer-mode trace validation for the ring buffers: replays an execution      *)
(* recorded from the real code (NDJSON, one event per line, runs separated *)
(* by "run_start" events) through the client-level observer RingObs and       *)
(* evaluates every property in every state of the trace.  Nothing about    *)
(* the implementation is assumed: only the events the code produced.       *)
(***************************************************************************)
EXTENDS RingObs, Json, IOUtils, TLCExt

VARIABLES l      \* position in the recorded trace

Rec == ndJsonDeserialize(IOEnv.TRACE)

\* constants come from the header line of the trace (cfg: X <- TraceX)
TraceCap == Rec[1].consts.Cap

tvars == <<obsVars, l>>

TraceInit == ObsInit /\ l = 1

TraceNext ==
  /\ l <= Len(Rec)
  /\ l' = l + 1
  /\ IF Rec[l].op = "run_start"
     THEN oSeq' = <<>> /\ bad' = {}
     ELSE ObsStep(Rec[l])

TraceSpec == TraceInit /\ [][TraceNext]_tvars

\* the whole trace was consumed
TraceAccepted ==
  LET d == TLCGet("stats").diameter IN
  IF d - 1 = Len(Rec) THEN TRUE
  ELSE Print(<<"TRACE-REJECTED at line", d, IF d <= Len(Rec) THEN Rec[d] ELSE "eof">>, FALSE)

\* error traces print only the position and the verdict (ALIAS in the cfg)
TraceAlias == [l |-> l, bad |-> bad]
=============================================================================
