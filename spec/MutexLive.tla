------------------------------ MODULE MutexLive ------------------------------
(***************************************************************************)
(* Liveness half of C03: a closed system of K tasks that use the mutex the *)
(* way an executor does -- task t creates a lock future, polls it, parks   *)
(* when Pending, polls again only after it has been woken through the      *)
(* waker of its latest poll, holds the guard for a while, drops it, starts *)
(* over; a parked task may also give up (drop the pending future).         *)
(* The actions are the ones of Mutex.tla (the same critical sections that  *)
(* the edge tours bind to the code); wake delivery is an action of its own.*)
(* Weak fairness on "a woken task polls", "a holder releases" and "a taken *)
(* waker is delivered".                                                    *)
(*   fair mutex   : every parked task eventually stops being parked        *)
(*   unfair mutex : whenever somebody is parked, somebody eventually holds *)
(*                  (an individual task may starve: that is allowed)       *)
(***************************************************************************)
EXTENDS Mutex

CONSTANT MaxGiveUps   \* tasks give up (time out) only finitely often

VARIABLES pc,     \* task -> "idle" | "polling" | "parked" | "holding" | "cleanup"
          gu      \* number of give-ups so far
lvars == <<vars, pc, gu>>

LInit == Init /\ pc = [t \in Slots |-> "idle"] /\ gu = 0

PollT(t) == /\ pc[t] = "polling" \/ (pc[t] = "parked" /\ oWoken[t])
            /\ Poll(t, "A")
            /\ pc' = [pc EXCEPT ![t] = IF evt'.res = "ready" THEN "holding" ELSE "parked"]
            /\ UNCHANGED gu
Release(t) == pc[t] = "holding" /\ DropGuard /\ pc' = [pc EXCEPT ![t] = "cleanup"] /\ UNCHANGED gu
Cleanup(t) == pc[t] = "cleanup" /\ Drop(t) /\ pc' = [pc EXCEPT ![t] = "idle"] /\ UNCHANGED gu
GiveUp(t) == pc[t] = "parked" /\ gu < MaxGiveUps /\ Drop(t) /\ pc' = [pc EXCEPT ![t] = "idle"] /\ gu' = gu + 1
DeliverL(w) == Deliver(w) /\ UNCHANGED <<pc, gu>>

\* Create in Mutex.tla takes the smallest free slot; tasks own their slot here
StartAny(t) == /\ pc[t] = "idle" /\ st[t] = "none"
               /\ st' = [st EXCEPT ![t] = "new"] /\ UNCHANGED <<locked, task, q>>
               /\ Emit([op |-> "create", f |-> t])
               /\ pc' = [pc EXCEPT ![t] = "polling"] /\ UNCHANGED gu

LNext == \/ \E t \in Slots : StartAny(t) \/ PollT(t) \/ Release(t) \/ Cleanup(t) \/ GiveUp(t)
         \/ \E w \in Wakers : DeliverL(w)

LiveSpec == /\ LInit /\ [][LNext]_lvars
            /\ \A t \in Slots : WF_lvars(PollT(t)) /\ WF_lvars(Release(t)) /\ WF_lvars(Cleanup(t))
            /\ \A w \in Wakers : WF_lvars(DeliverL(w))

Parked(t) == pc[t] = "parked"
FairProgress == \A t \in Slots : Parked(t) ~> ~Parked(t)
\* (a parked task may also give up; behaviours in which nobody gives up must reach a holder)
UnfairProgress == (\E t \in Slots : Parked(t)) ~> ((\E t \in Slots : pc[t] = "holding") \/ ~\E t \in Slots : Parked(t))
=============================================================================
