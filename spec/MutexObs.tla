------------------------------ MODULE MutexObs ------------------------------
(***************************************************************************)
(* Client-level observer for the async mutex (src/sync/mutex.rs).          *)
(*                                                                         *)
(* The observer sees nothing but what a client of the public API sees:     *)
(* which call was made, with which arguments, what it returned, which      *)
(* wakers were woken, what is_terminated()/is_locked() report afterwards   *)
(* (plus, for C01, the wait queue as exported by the verification hook).   *)
(* It maintains ghost variables from those events only and states the      *)
(* properties C01, C02, C03, C04, C17 over them.  The same definitions are *)
(* used (a) conjoined to the implementation-shaped model Mutex.tla, where  *)
(* TLC checks them on every reachable state, and (b) by MutexObsTrace.tla  *)
(* on executions recorded from the real code.                              *)
(*                                                                         *)
(* Event record fields (all events): op, term (sorted seq of slots whose   *)
(* future reports is_terminated), pub ([is_locked]), q (wait queue, oldest *)
(* first, slot numbers, 0 = address of no live future), nst (node state of *)
(* each slot: "none","new","waiting","notified","done").                   *)
(*   create f | poll f w res taken | poll_done f res | drop f taken        *)
(*   try_lock res | drop_guard taken | is_locked res | wake w              *)
(* res: "ready" | "pending" | "panic" | "some" | "none" | "true"/"false"  *)
(* taken: wakers taken under the lock, woken after it has been released.   *)
(***************************************************************************)
EXTENDS Common

CONSTANTS K,        \* number of future slots
          Fair,     \* fairness mode of the mutex
          Wk        \* waker variants, subset of {"A","B"}

Slots  == 1..K
Wakers == Slots \X Wk

VARIABLES oA,      \* slot -> "none" | "new" | "pending" | "done"
          oLastW,  \* slot -> waker variant of the latest poll, "-" if none
          oWoken,  \* slot -> woken through oLastW since the latest poll
          oInfl,   \* bag of wakers taken but not yet delivered
          oG,      \* number of live guards
          oOrd,    \* pending futures in arrival order
          bad      \* properties violated by the latest step

obsVars == <<oA, oLastW, oWoken, oInfl, oG, oOrd, bad>>

ObsInit == /\ oA = [f \in Slots |-> "none"]
           /\ oLastW = [f \in Slots |-> "-"]
           /\ oWoken = [f \in Slots |-> FALSE]
           /\ oInfl = EmptyBag(Wakers)
           /\ oG = 0
           /\ oOrd = <<>>
           /\ bad = {}

OPending == {f \in Slots : oA[f] = "pending"}
HasWake(f) == oWoken[f] \/ BagIn(oInfl, <<f, oLastW[f]>>)

(* ----- per-step checks: returns the set of violated property ids ------- *)
QueueCheck(e, A) ==
  \* C01: queue = alive waiting futures, each once, nothing else
  \* (events of concurrent runs carry no queue snapshot: nothing to check)
  "q" \in DOMAIN e =>
  /\ NoDup(e.q)
  /\ \A i \in 1..Len(e.q) : e.q[i] \in Slots /\ A[e.q[i]] = "pending"
  /\ \A f \in Slots :
       /\ (A[f] = "pending" /\ ~InSeq(e.q, f)) => (~Fair /\ e.nst[f] = "notified")
       /\ InSeq(e.q, f) => e.nst[f] \in {"waiting", "notified"}
       /\ (A[f] = "none") <=> (e.nst[f] = "none")

StepBad(e, A, G, ordBefore) ==
  LET completes == (e.op = "poll" /\ e.res = "ready") \/ (e.op = "try_lock" /\ e.res = "some")
      c01 == \/ (e.op # "poll_done" /\ "res" \in DOMAIN e /\ e.res = "panic")
             \/ ~QueueCheck(e, A)
      c02 == \/ (completes /\ oG # 0)
             \/ ("pub" \in DOMAIN e /\ e.pub.is_locked # (G > 0))
             \/ (e.op = "is_locked" /\ e.res # (IF oG > 0 THEN "true" ELSE "false"))
      c04 == Fair /\ \/ (e.op = "poll" /\ e.res = "ready" /\
                           IF InSeq(ordBefore, e.f) THEN Head(ordBefore) # e.f ELSE ordBefore # <<>>)
                     \/ (e.op = "try_lock" /\ e.res = "some" /\ ordBefore # <<>>)
      c17 == \/ ("term" \in DOMAIN e /\ e.term # SetToSortedSeq({f \in Slots : A[f] = "done"}))
             \* threaded runs report is_terminated() of the polled future only
             \/ ("fterm" \in DOMAIN e /\ e.op = "poll" /\ e.fterm # (A[e.f] = "done"))
             \/ (e.op = "poll_done" /\ e.res # "panic")
      c18 == "alloc" \in DOMAIN e /\ e.alloc # 0
      \* a threaded run in which every task ended up parked: a lost wake-up
      cdl == e.op = "abort" /\ "res" \in DOMAIN e /\ e.res = "deadlock"
  IN (IF cdl THEN {"C03"} ELSE {}) \cup (IF c01 THEN {"C01"} ELSE {}) \cup (IF c02 THEN {"C02"} ELSE {})
     \cup (IF c04 THEN {"C04"} ELSE {}) \cup (IF c17 THEN {"C17"} ELSE {})
     \cup (IF c18 THEN {"C18"} ELSE {})

(* ----- ghost update from one client-visible event ---------------------- *)
Taken(e) == IF "taken" \in DOMAIN e THEN e.taken ELSE <<>>

ObsStep(e) ==
  LET A == CASE e.op = "create" -> [oA EXCEPT ![e.f] = "new"]
             [] e.op = "poll" -> [oA EXCEPT ![e.f] = IF e.res = "ready" THEN "done"
                                                     ELSE IF e.res = "pending" THEN "pending" ELSE @]
             [] e.op = "drop" -> [oA EXCEPT ![e.f] = "none"]
             [] OTHER -> oA
      G == CASE e.op = "poll" /\ e.res = "ready" -> oG + 1
             [] e.op = "try_lock" /\ e.res = "some" -> oG + 1
             [] e.op = "drop_guard" -> oG - 1
             [] OTHER -> oG
      O == CASE e.op = "poll" /\ e.res = "pending" ->
                  IF InSeq(oOrd, e.f) THEN oOrd ELSE Append(oOrd, e.f)
             [] e.op = "poll" /\ e.res = "ready" -> Rm(oOrd, e.f)
             [] e.op = "drop" -> Rm(oOrd, e.f)
             [] OTHER -> oOrd
  IN
  /\ oA' = A /\ oG' = G /\ oOrd' = O
  /\ oLastW' = CASE e.op = "poll" -> [oLastW EXCEPT ![e.f] = e.w]
                 [] e.op = "drop" -> [oLastW EXCEPT ![e.f] = "-"]
                 [] OTHER -> oLastW
  \* a wake-up is delivered by a `wake` event (after the lock was released) or inside the critical
  \* section of the call itself (`wakes`; an implementation may choose either)
  /\ oWoken' = LET W0 == IF e.op \in {"poll", "drop"} THEN [oWoken EXCEPT ![e.f] = FALSE] ELSE oWoken
                   LW == CASE e.op = "poll" -> [oLastW EXCEPT ![e.f] = e.w]
                           [] e.op = "drop" -> [oLastW EXCEPT ![e.f] = "-"]
                           [] OTHER -> oLastW
                   ws == IF e.op = "wake" THEN <<e.w>> ELSE IF "wakes" \in DOMAIN e THEN e.wakes ELSE <<>>
               IN [f \in Slots |-> W0[f] \/ (A[f] = "pending" /\
                      \E i \in 1..Len(ws) : ws[i][1] = f /\ ws[i][2] = LW[f])]
  /\ oInfl' = IF e.op = "wake" THEN BagDel(oInfl, e.w) ELSE BagAdd(oInfl, Taken(e))
  /\ bad' = StepBad(e, A, G, oOrd)

(* ----- the properties --------------------------------------------------- *)
NoBad(id) == id \notin bad

C01 == NoBad("C01")
C02 == oG <= 1 /\ NoBad("C02")
\* C03: whenever the mutex is free while lock futures are pending, one of
\* them (fair: the longest waiting) holds an unconsumed wake-up (delivered,
\* or taken by a call that has not returned yet).
C03 == (oG = 0 /\ OPending # {}) =>
          IF Fair THEN HasWake(Head(oOrd)) ELSE \E f \in OPending : HasWake(f)
C04 == NoBad("C04")
C17 == NoBad("C17")
\* C18: no call into the library allocated or freed heap memory (the harness
\* arms a counting allocator only while inside the library)
C18 == NoBad("C18")
OrdOK == SeqSet(oOrd) = OPending /\ NoDup(oOrd)
=============================================================================
