------------------------------- MODULE MpmcLive -------------------------------
(***************************************************************************)
(* Liveness half of C10: NS looping producers and NR looping consumers on  *)
(* an open channel.  A task polls again only when it was woken through the *)
(* waker of its latest poll; consumers may abandon a pending receive a     *)
(* bounded number of times (the notified-receiver-drop path).  Wake        *)
(* delivery is an action of its own (all schedules).                       *)
(* Weak fairness on every task step and on wake delivery.                  *)
(*   matching producers and consumers never deadlock:                      *)
(*   values keep being received, infinitely often.                         *)
(***************************************************************************)
EXTENDS Mpmc

CONSTANT MaxGiveUps

VARIABLES spc, rpc, gu
lvars == <<vars, spc, rpc, gu>>

LInit == Init /\ spc = [s \in S |-> "idle"] /\ rpc = [r \in 1..NR |-> "idle"] /\ gu = 0

StartS(s) == /\ spc[s] = "idle" /\ sst[s] = "none" /\ Free # {}
             /\ sst' = [sst EXCEPT ![s] = "unreg"] /\ sval' = [sval EXCEPT ![s] = MinFree]
             /\ UNCHANGED <<closed, buf, rst, rfin, rtask, rq, sfin, stask, sq, xs, senders, receivers, dead>>
             /\ Emit([op |-> "create_send", s |-> s, v |-> MinFree])
             /\ spc' = [spc EXCEPT ![s] = "polling"] /\ UNCHANGED <<rpc, gu>>
PollS(s) == /\ spc[s] = "polling" \/ (spc[s] = "parked" /\ oSWoken[s])
            /\ PollSend(s, "A")
            /\ spc' = [spc EXCEPT ![s] = IF evt'.res = "pending" THEN "parked" ELSE "cleanup"]
            /\ UNCHANGED <<rpc, gu>>
CleanS(s) == spc[s] = "cleanup" /\ DropSend(s) /\ spc' = [spc EXCEPT ![s] = "idle"] /\ UNCHANGED <<rpc, gu>>

StartR(r) == /\ rpc[r] = "idle" /\ rst[r] = "none"
             /\ rst' = [rst EXCEPT ![r] = "unreg"]
             /\ UNCHANGED <<closed, buf, rfin, rtask, rq, sst, sfin, stask, sval, sq, xs, senders, receivers, dead>>
             /\ Emit([op |-> "create_recv", r |-> r])
             /\ rpc' = [rpc EXCEPT ![r] = "polling"] /\ UNCHANGED <<spc, gu>>
PollR(r) == /\ rpc[r] = "polling" \/ (rpc[r] = "parked" /\ oRWoken[r])
            /\ PollRecv(r, "A")
            /\ rpc' = [rpc EXCEPT ![r] = IF evt'.res = "pending" THEN "parked" ELSE "cleanup"]
            /\ UNCHANGED <<spc, gu>>
CleanR(r) == rpc[r] = "cleanup" /\ DropRecv(r) /\ rpc' = [rpc EXCEPT ![r] = "idle"] /\ UNCHANGED <<spc, gu>>
GiveUpR(r) == /\ rpc[r] = "parked" /\ gu < MaxGiveUps /\ DropRecv(r)
              /\ rpc' = [rpc EXCEPT ![r] = "idle"] /\ gu' = gu + 1 /\ UNCHANGED spc
DeliverL(w) == Deliver(w) /\ UNCHANGED <<spc, rpc, gu>>

LNext == \/ \E s \in S : StartS(s) \/ PollS(s) \/ CleanS(s)
         \/ \E r \in 1..NR : StartR(r) \/ PollR(r) \/ CleanR(r) \/ GiveUpR(r)
         \/ \E w \in Wakers : DeliverL(w)

LiveSpec == /\ LInit /\ [][LNext]_lvars
            /\ \A s \in S : WF_lvars(StartS(s)) /\ WF_lvars(PollS(s)) /\ WF_lvars(CleanS(s))
            /\ \A r \in 1..NR : WF_lvars(StartR(r)) /\ WF_lvars(PollR(r)) /\ WF_lvars(CleanR(r))
            /\ \A w \in Wakers : WF_lvars(DeliverL(w))

Received == evt.op = "poll_recv" /\ evt.res = "some"
NoDeadlock == []<>Received
\* no task stays parked forever
NobodyStuck == /\ \A s \in S : (spc[s] = "parked") ~> (spc[s] # "parked")
=============================================================================
