------------------------------- MODULE StateObs -------------------------------
(***************************************************************************)
(* Client-level observer for the state broadcast channel                   *)
(* (src/channel/state_broadcast.rs, borrowed and shared).                  *)
(* Properties C01, C11, C13, C17, C18.                                     *)
(*                                                                         *)
(* Events (all may carry term, closed, q, nst, alloc):                     *)
(*   send v res rv wakes | close res wakes | try_recv id res sid v         *)
(*   create r id | poll r w res sid v | poll_done r res | drop r           *)
(*   clone_sender | drop_sender wakes | clone_receiver | drop_receiver wakes*)
(*   destroy                                                               *)
(* id / sid are the numeric values of StateIds (0 = StateId::new()).       *)
(* The observer does not assume how ids are numbered, only what the        *)
(* property says: newer publications carry strictly larger ids.            *)
(***************************************************************************)
EXTENDS Common

CONSTANTS K, Wk, Shared

Slots == 1..K

VARIABLES oA, oLastW, oWoken,
          oWant,     \* slot -> the id the receive future was created with
          oPubN,     \* number of publications so far
          oLatest,   \* value of the latest publication
          oCurId,    \* id under which the latest publication was observed (0: not observed yet)
          oMaxOld,   \* largest id observed for an older publication
          oClosed, oSenders, oReceivers,
          bad

obsVars == <<oA, oLastW, oWoken, oWant, oPubN, oLatest, oCurId, oMaxOld, oClosed, oSenders, oReceivers, bad>>

ObsInit == /\ oA = [f \in Slots |-> "none"]
           /\ oLastW = [f \in Slots |-> "-"]
           /\ oWoken = [f \in Slots |-> FALSE]
           /\ oWant = [f \in Slots |-> 0]
           /\ oPubN = 0 /\ oLatest = 0 /\ oCurId = 0 /\ oMaxOld = 0
           /\ oClosed = FALSE /\ oSenders = 1 /\ oReceivers = 1
           /\ bad = {}

OPending == {f \in Slots : oA[f] = "pending"}
Fld(e, k, d) == IF k \in DOMAIN e THEN e[k] ELSE d
Wakes(e) == Fld(e, "wakes", <<>>)

\* a receiver that passes `id` has not yet seen the latest publication
Deliverable(id) == oPubN > 0 /\ (oCurId = 0 \/ id < oCurId)
Expected(id) == IF Deliverable(id) THEN "some" ELSE IF oClosed THEN "none" ELSE "pending"

QueueCheck(e, A) ==
  "q" \in DOMAIN e =>
  /\ NoDup(e.q)
  /\ \A i \in 1..Len(e.q) : e.q[i] \in Slots /\ A[e.q[i]] = "pending"
  /\ \A f \in Slots : /\ (e.nst[f] = "reg") <=> InSeq(e.q, f)
                      /\ (A[f] = "none") <=> (e.nst[f] = "none")

\* (threaded runs log the drop of the last handle of a side as dec_sender / dec_receiver where the
\* counter is updated, and late_close for the critical section that follows)
ClosesNow(e) == \/ e.op \in {"close", "late_close"}
                \/ (e.op = "drop_sender" /\ oSenders = 1)
                \/ (e.op = "drop_receiver" /\ oReceivers = 1)

StepBad(e, A, Cl) ==
  LET res == Fld(e, "res", "-")
      v == Fld(e, "v", 0)
      id == IF e.op = "poll" THEN oWant[e.r] ELSE Fld(e, "id", 0)
      c01 == \/ (e.op # "poll_done" /\ res = "panic")
             \/ ~QueueCheck(e, A)
      c13 == \/ (e.op \in {"poll", "try_recv"} /\ res = "some" /\
                   \/ oPubN = 0 \/ v # oLatest                   \* only the most recently published state
                   \/ e.sid <= id                                 \* only if newer than what was passed in
                   \/ e.sid <= oMaxOld                            \* ids strictly increase with publications
                   \/ (oCurId # 0 /\ e.sid # oCurId))             \* one id per publication
             \/ (e.op = "poll" /\ res \in {"some", "none", "pending"} /\ res # Expected(id))
             \/ (e.op = "try_recv" /\ res \in {"some", "none"} /\ (res = "some") # Deliverable(id))
      c11 == \* (threaded runs) the drop of the last handle of a side has returned: the channel is closed by now
             \/ (e.op = "drop_returned" /\ ~oClosed)
             \/ (e.op = "close" /\ res # (IF oClosed THEN "already" ELSE "newly"))
             \/ (e.op = "send" /\ ((res = "err") # oClosed))
             \/ (e.op = "send" /\ res = "err" /\ e.rv # v)
             \/ ("closed" \in DOMAIN e /\ e.closed # Cl)
      c17 == \/ ("term" \in DOMAIN e /\ e.term # SetToSortedSeq({f \in Slots : A[f] = "done"}))
             \* threaded runs report is_terminated() of the polled future only
             \/ ("fterm" \in DOMAIN e /\ e.op = "poll" /\ e.fterm # (A[e.r] = "done"))
             \/ (e.op = "poll_done" /\ res # "panic")
      c18 == "alloc" \in DOMAIN e /\ e.alloc # 0
      \* a threaded run in which every task ended up parked: a lost wake-up
      cdl == e.op = "abort" /\ "res" \in DOMAIN e /\ e.res = "deadlock"
  IN (IF cdl THEN {"C13"} ELSE {}) \cup (IF c01 THEN {"C01"} ELSE {}) \cup (IF c11 THEN {"C11"} ELSE {}) \cup (IF c13 THEN {"C13"} ELSE {})
     \cup (IF c17 THEN {"C17"} ELSE {}) \cup (IF c18 THEN {"C18"} ELSE {})

ObsStep(e) ==
  LET res == Fld(e, "res", "-")
      A == CASE e.op = "create" -> [oA EXCEPT ![e.r] = "new"]
             [] e.op = "poll" -> [oA EXCEPT ![e.r] = IF res \in {"some", "none"} THEN "done"
                                                     ELSE IF res = "pending" THEN "pending" ELSE @]
             [] e.op = "drop" -> [oA EXCEPT ![e.r] = "none"]
             [] OTHER -> oA
      Cl == oClosed \/ ClosesNow(e)
      pub == e.op = "send" /\ res = "ok"
      got == e.op \in {"poll", "try_recv"} /\ res = "some"
      LW == CASE e.op = "poll" -> [oLastW EXCEPT ![e.r] = e.w]
              [] e.op = "drop" -> [oLastW EXCEPT ![e.r] = "-"]
              [] OTHER -> oLastW
      W0 == IF e.op \in {"poll", "drop"} THEN [oWoken EXCEPT ![e.r] = FALSE] ELSE oWoken
      \* wakers taken under the lock and invoked after it (`taken`) count like in-lock wake-ups
      ws == Wakes(e) \o (IF "taken" \in DOMAIN e THEN e.taken ELSE <<>>)
  IN
  /\ oA' = A /\ oClosed' = Cl /\ oLastW' = LW
  /\ oWant' = CASE e.op = "create" -> [oWant EXCEPT ![e.r] = e.id]
                [] e.op = "drop" -> [oWant EXCEPT ![e.r] = 0]
                [] OTHER -> oWant
  /\ oPubN' = IF pub THEN oPubN + 1 ELSE oPubN
  /\ oLatest' = IF pub THEN e.v ELSE oLatest
  /\ oMaxOld' = IF pub /\ oCurId > oMaxOld THEN oCurId ELSE oMaxOld
  /\ oCurId' = IF pub THEN 0 ELSE IF got THEN e.sid ELSE oCurId
  /\ oWoken' = [f \in Slots |-> W0[f] \/ (A[f] = "pending" /\
                    \E i \in 1..Len(ws) : ws[i][1] = f /\ ws[i][2] = LW[f])]
  /\ oSenders' = CASE e.op = "clone_sender" -> oSenders + 1
                   [] e.op \in {"drop_sender", "dec_sender"} -> oSenders - 1
                   [] OTHER -> oSenders
  /\ oReceivers' = CASE e.op = "clone_receiver" -> oReceivers + 1
                     [] e.op \in {"drop_receiver", "dec_receiver"} -> oReceivers - 1
                     [] OTHER -> oReceivers
  /\ bad' = StepBad(e, A, Cl)

NoBad(id) == id \notin bad
C01 == NoBad("C01")
\* C11: step checks, plus: once the channel is closed (explicitly or by the last handle of a side)
\* every pending future has been woken
C11 == NoBad("C11") /\ (oClosed => \A f \in OPending : oWoken[f])
\* C13: step checks, plus: a pending receiver for which something newer was
\* published, or whose channel was closed, has been woken
C13 == NoBad("C13") /\ \A f \in OPending : (Deliverable(oWant[f]) \/ oClosed) => oWoken[f]
C17 == NoBad("C17")
C18 == NoBad("C18")
=============================================================================
