----------------------------- MODULE OneshotLive -----------------------------
(***************************************************************************)
(* Liveness half of C12 (and of the close clause of C11): K receiver tasks *)
(* on a borrowed oneshot / oneshot-broadcast channel poll a receive        *)
(* future, park when Pending and poll again only after having been woken   *)
(* through the waker of their latest poll; the other side eventually sends *)
(* or closes.  The actions are the ones of Oneshot.tla.                    *)
(*   Progress : every parked receiver eventually completes                 *)
(*   broadcast: if the send was accepted every receiver ends with the value*)
(***************************************************************************)
EXTENDS Oneshot

VARIABLES pc,     \* task -> "idle" | "polling" | "parked" | "got" | "gotnone" | "done"
          sent    \* the value the send was accepted with (0: none)
lvars == <<vars, pc, sent>>

LInit == Init /\ pc = [t \in Slots |-> "idle"] /\ sent = 0

Start(t) == /\ pc[t] = "idle" /\ st[t] = "none"
            /\ st' = [st EXCEPT ![t] = "unreg"]
            /\ UNCHANGED <<ful, value, fin, task, q, senders, receivers, dead>>
            /\ Emit([op |-> "create", r |-> t])
            /\ pc' = [pc EXCEPT ![t] = "polling"] /\ UNCHANGED sent
PollT(t) == /\ pc[t] = "polling" \/ (pc[t] = "parked" /\ oWoken[t])
            /\ Poll(t, "A")
            /\ pc' = [pc EXCEPT ![t] = CASE evt'.res = "some" -> "got" [] evt'.res = "none" -> "gotnone" [] OTHER -> "parked"]
            /\ UNCHANGED sent
Cleanup(t) == pc[t] \in {"got", "gotnone"} /\ Drop(t) /\ pc' = [pc EXCEPT ![t] = "done"] /\ UNCHANGED sent
\* the other side: one send, or a close, whichever comes first; both may be repeated (and are rejected)
SendL == /\ Send(1) /\ sent' = (IF evt'.res = "ok" THEN 1 ELSE sent) /\ UNCHANGED pc
CloseL == Close /\ UNCHANGED <<pc, sent>>

LNext == \/ \E t \in Slots : Start(t) \/ PollT(t) \/ Cleanup(t)
         \/ SendL \/ CloseL

LiveSpec == /\ LInit /\ [][LNext]_lvars
            /\ \A t \in Slots : WF_lvars(PollT(t)) /\ WF_lvars(Cleanup(t))
            /\ WF_lvars(SendL \/ CloseL)

Parked(t) == pc[t] = "parked"
Progress == \A t \in Slots : Parked(t) ~> ~Parked(t)
\* safety companion: a broadcast receiver never ends empty-handed once a value was accepted;
\* the single-consumer flavour hands the value to exactly one
EndsRight == IF Broadcast THEN \A t \in Slots : pc[t] = "gotnone" => sent = 0
             ELSE Cardinality({t \in Slots : pc[t] = "got"}) <= 1
=============================================================================
