------------------------------ MODULE EventObs ------------------------------
(***************************************************************************)
(* Client-level observer for ManualResetEvent                              *)
(* (src/sync/manual_reset_event.rs).  Properties C01, C14, C17, C18.       *)
(*                                                                         *)
(* Events (all carry term, pub=[is_set], q, nst, alloc):                   *)
(*   create f | poll f w res | poll_done f res | drop f                    *)
(*   set wakes | reset wakes | is_set res                                  *)
(***************************************************************************)
EXTENDS Common

CONSTANTS K, Wk, InitSet

Slots == 1..K

VARIABLES oA,       \* slot -> "none" | "new" | "pending" | "done"
          oLastW,   \* slot -> waker variant of the latest poll
          oWoken,   \* slot -> woken through oLastW since the latest poll
          oLatched, \* slot -> the event was set at some instant since the first poll
          oSet,     \* the event is set (last set/reset)
          bad

obsVars == <<oA, oLastW, oWoken, oLatched, oSet, bad>>

ObsInit == /\ oA = [f \in Slots |-> "none"]
           /\ oLastW = [f \in Slots |-> "-"]
           /\ oWoken = [f \in Slots |-> FALSE]
           /\ oLatched = [f \in Slots |-> FALSE]
           /\ oSet = InitSet
           /\ bad = {}

OPending == {f \in Slots : oA[f] = "pending"}
Wakes(e) == IF "wakes" \in DOMAIN e THEN e.wakes ELSE <<>>

QueueCheck(e, A) ==
  "q" \in DOMAIN e =>
  /\ NoDup(e.q)
  /\ \A i \in 1..Len(e.q) : e.q[i] \in Slots /\ A[e.q[i]] = "pending"
  /\ \A f \in Slots :
       /\ InSeq(e.q, f) => e.nst[f] = "waiting"
       /\ (e.nst[f] = "waiting") => InSeq(e.q, f)
       /\ (A[f] = "none") <=> (e.nst[f] = "none")

StepBad(e, A, S) ==
  LET c01 == \/ (e.op # "poll_done" /\ "res" \in DOMAIN e /\ e.res = "panic")
             \/ ~QueueCheck(e, A)
      c14 == \* a wait completes iff the event is set now or was set while it waited
             \/ (e.op = "poll" /\ e.res = "ready" /\ ~(oSet \/ oLatched[e.f]))
             \/ (e.op = "poll" /\ e.res = "pending" /\ (oSet \/ oLatched[e.f]))
             \/ (e.op = "reset" /\ Wakes(e) # <<>>)
             \/ (e.op = "is_set" /\ e.res # (IF oSet THEN "true" ELSE "false"))
             \/ ("pub" \in DOMAIN e /\ e.pub.is_set # S)
      c17 == \/ ("term" \in DOMAIN e /\ e.term # SetToSortedSeq({f \in Slots : A[f] = "done"}))
             \* threaded runs report is_terminated() of the polled future only
             \/ ("fterm" \in DOMAIN e /\ e.op = "poll" /\ e.fterm # (A[e.f] = "done"))
             \/ (e.op = "poll_done" /\ e.res # "panic")
      c18 == "alloc" \in DOMAIN e /\ e.alloc # 0
      \* a threaded run in which every task ended up parked: a lost wake-up
      cdl == e.op = "abort" /\ "res" \in DOMAIN e /\ e.res = "deadlock"
  IN (IF cdl THEN {"C14"} ELSE {}) \cup (IF c01 THEN {"C01"} ELSE {}) \cup (IF c14 THEN {"C14"} ELSE {})
     \cup (IF c17 THEN {"C17"} ELSE {}) \cup (IF c18 THEN {"C18"} ELSE {})

ObsStep(e) ==
  LET A == CASE e.op = "create" -> [oA EXCEPT ![e.f] = "new"]
             [] e.op = "poll" -> [oA EXCEPT ![e.f] = IF e.res = "ready" THEN "done"
                                                     ELSE IF e.res = "pending" THEN "pending" ELSE @]
             [] e.op = "drop" -> [oA EXCEPT ![e.f] = "none"]
             [] OTHER -> oA
      S == CASE e.op = "set" -> TRUE [] e.op = "reset" -> FALSE [] OTHER -> oSet
      LW == CASE e.op = "poll" -> [oLastW EXCEPT ![e.f] = e.w]
              [] e.op = "drop" -> [oLastW EXCEPT ![e.f] = "-"]
              [] OTHER -> oLastW
      W0 == IF e.op \in {"poll", "drop"} THEN [oWoken EXCEPT ![e.f] = FALSE] ELSE oWoken
      \* wakers taken under the lock and invoked after it (`taken`) count like in-lock wake-ups
      ws == Wakes(e) \o (IF "taken" \in DOMAIN e THEN e.taken ELSE <<>>)
  IN
  /\ oA' = A /\ oSet' = S /\ oLastW' = LW
  /\ oWoken' = [f \in Slots |-> W0[f] \/ (A[f] = "pending" /\
                    \E i \in 1..Len(ws) : ws[i][1] = f /\ ws[i][2] = LW[f])]
  /\ oLatched' = CASE e.op = "set" -> [f \in Slots |-> oLatched[f] \/ oA[f] = "pending"]
                   [] e.op \in {"drop", "create"} -> [oLatched EXCEPT ![e.f] = FALSE]
                   [] e.op = "poll" /\ e.res = "ready" -> [oLatched EXCEPT ![e.f] = FALSE]
                   [] OTHER -> oLatched
  /\ bad' = StepBad(e, A, S)

NoBad(id) == id \notin bad
C01 == NoBad("C01")
\* C14: step checks, plus: every pending waiter for which the event was set
\* while it waited has been woken through its latest waker since its last poll
C14 == NoBad("C14") /\ \A f \in OPending : oLatched[f] => oWoken[f]
C17 == NoBad("C17")
C18 == NoBad("C18")
=============================================================================
