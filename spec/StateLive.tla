------------------------------ MODULE StateLive ------------------------------
(***************************************************************************)
(* Liveness half of C13: K follower tasks on a borrowed state-broadcast    *)
(* channel each keep a last-seen id, ask for something newer, park when    *)
(* Pending, poll again only after having been woken through the waker of   *)
(* their latest poll, and start over with the id they received; a publisher*)
(* sends up to MaxSid states and then closes.  Actions of StateBroadcast.  *)
(*   Progress : every parked follower eventually stops being parked        *)
(*   Finish   : every follower eventually sees the end of the stream       *)
(*   Monotone : (safety) the ids a follower receives strictly increase     *)
(***************************************************************************)
EXTENDS StateBroadcast

VARIABLES pc,     \* task -> "idle" | "polling" | "parked" | "cleanup" | "end"
          last,   \* task -> last id seen
          ended   \* task -> the receive that is being cleaned up returned None
lvars == <<vars, pc, last, ended>>

LInit == Init /\ pc = [t \in Slots |-> "idle"] /\ last = [t \in Slots |-> 0] /\ ended = [t \in Slots |-> FALSE]

Start(t) == /\ pc[t] = "idle" /\ st[t] = "none"
            /\ st' = [st EXCEPT ![t] = "unreg"] /\ want' = [want EXCEPT ![t] = last[t]]
            /\ UNCHANGED <<closed, sid, value, known, fin, task, q, senders, receivers, dead>>
            /\ Emit([op |-> "create", r |-> t, id |-> last[t]])
            /\ pc' = [pc EXCEPT ![t] = "polling"] /\ UNCHANGED <<last, ended>>
PollT(t) == /\ pc[t] = "polling" \/ (pc[t] = "parked" /\ oWoken[t])
            /\ Poll(t, "A")
            /\ pc' = [pc EXCEPT ![t] = IF evt'.res = "pending" THEN "parked" ELSE "cleanup"]
            /\ last' = [last EXCEPT ![t] = IF evt'.res = "some" THEN evt'.sid ELSE @]
            /\ ended' = [ended EXCEPT ![t] = evt'.res = "none"]
Cleanup(t) == /\ pc[t] = "cleanup" /\ Drop(t)
              /\ pc' = [pc EXCEPT ![t] = IF ended[t] THEN "end" ELSE "idle"]
              /\ UNCHANGED <<last, ended>>
Publish == /\ ~closed /\ sid < MaxSid /\ Send(1) /\ UNCHANGED <<pc, last, ended>>
Finish == /\ sid = MaxSid /\ Close /\ UNCHANGED <<pc, last, ended>>

LNext == \/ \E t \in Slots : Start(t) \/ PollT(t) \/ Cleanup(t)
         \/ Publish \/ Finish

LiveSpec == /\ LInit /\ [][LNext]_lvars
            /\ \A t \in Slots : WF_lvars(Start(t)) /\ WF_lvars(PollT(t)) /\ WF_lvars(Cleanup(t))
            /\ WF_lvars(Publish) /\ WF_lvars(Finish)

Parked(t) == pc[t] = "parked"
Progress == \A t \in Slots : Parked(t) ~> ~Parked(t)
AllEnd == <>(\A t \in Slots : pc[t] = "end")
Monotone == [][\A t \in Slots : last'[t] >= last[t] /\ (pc[t] # "cleanup" /\ pc'[t] = "cleanup" /\ ~ended'[t] => last'[t] > last[t])]_lvars
=============================================================================
