------------------------------ MODULE OneshotObs ------------------------------
(***************************************************************************)
(* Client-level observer for the oneshot channel (src/channel/oneshot.rs)  *)
(* and the oneshot broadcast channel (oneshot_broadcast.rs): constant      *)
(* Broadcast selects the flavour.  Properties C01, C11, C12, C17, C18.     *)
(*                                                                         *)
(* Events (all may carry term, closed (is_fulfilled), q, nst, alloc):      *)
(*   send v res rv wakes | close res wakes                                 *)
(*   create r | poll r w res v | poll_done r res | drop r                  *)
(*   drop_sender wakes | clone_receiver | drop_receiver wakes | destroy    *)
(***************************************************************************)
EXTENDS Common

CONSTANTS K, Wk, Broadcast, Shared

Slots == 1..K

VARIABLES oA, oLastW, oWoken,
          oFul,      \* a value was accepted or the channel was closed
          oVal,      \* the accepted value (0: none)
          oTaken,    \* single consumer: the value has been received
          oClosedEv, \* close() was called or a side lost its last handle
          oSenders, oReceivers,
          bad

obsVars == <<oA, oLastW, oWoken, oFul, oVal, oTaken, oClosedEv, oSenders, oReceivers, bad>>

ObsInit == /\ oA = [f \in Slots |-> "none"]
           /\ oLastW = [f \in Slots |-> "-"]
           /\ oWoken = [f \in Slots |-> FALSE]
           /\ oFul = FALSE /\ oVal = 0 /\ oTaken = FALSE /\ oClosedEv = FALSE
           /\ oSenders = 1 /\ oReceivers = 1
           /\ bad = {}

OPending == {f \in Slots : oA[f] = "pending"}
Fld(e, k, d) == IF k \in DOMAIN e THEN e[k] ELSE d
Wakes(e) == Fld(e, "wakes", <<>>)

QueueCheck(e, A) ==
  "q" \in DOMAIN e =>
  /\ NoDup(e.q)
  /\ \A i \in 1..Len(e.q) : e.q[i] \in Slots /\ A[e.q[i]] = "pending"
  /\ \A f \in Slots : /\ (e.nst[f] = "reg") <=> InSeq(e.q, f)
                      /\ (A[f] = "none") <=> (e.nst[f] = "none")

\* (threaded runs log the drop of the last handle of a side as dec_sender / dec_receiver where the
\* counter is updated, and late_close for the critical section that follows)
ClosesNow(e) == \/ e.op \in {"close", "late_close"}
                \/ (e.op = "drop_sender" /\ oSenders = 1)
                \/ (e.op = "drop_receiver" /\ oReceivers = 1)

StepBad(e, A, Ful) ==
  LET res == Fld(e, "res", "-")
      v == Fld(e, "v", 0)
      c01 == \/ (e.op # "poll_done" /\ res = "panic")
             \/ ~QueueCheck(e, A)
      c12 == \* exactly one value is accepted
             \/ (e.op = "send" /\ ((res = "ok") # ~oFul))
             \/ (e.op = "send" /\ res = "err" /\ e.rv # v)
             \* delivery
             \/ (e.op = "poll" /\ res = "some" /\ (oVal = 0 \/ v # oVal \/ (~Broadcast /\ oTaken)))
             \/ (e.op = "poll" /\ res = "none" /\ ~(oFul /\ (oVal = 0 \/ (~Broadcast /\ oTaken))))
             \/ (e.op = "poll" /\ res = "pending" /\ oFul)
      c11 == \* (threaded runs) the drop of the last handle of a side has returned: the channel is closed by now
             \/ (e.op = "drop_returned" /\ ~oFul)
             \/ (e.op = "close" /\ res = "newly" /\ (oClosedEv \/ oFul))
             \/ (e.op = "close" /\ res = "already" /\ ~oFul)
             \/ ("closed" \in DOMAIN e /\ e.closed # Ful)
      c17 == \/ ("term" \in DOMAIN e /\ e.term # SetToSortedSeq({f \in Slots : A[f] = "done"}))
             \* threaded runs report is_terminated() of the polled future only
             \/ ("fterm" \in DOMAIN e /\ e.op = "poll" /\ e.fterm # (A[e.r] = "done"))
             \/ (e.op = "poll_done" /\ res # "panic")
      c18 == "alloc" \in DOMAIN e /\ e.alloc # 0
      \* a threaded run in which every task ended up parked: a lost wake-up
      cdl == e.op = "abort" /\ "res" \in DOMAIN e /\ e.res = "deadlock"
  IN (IF cdl THEN {"C12"} ELSE {}) \cup (IF c01 THEN {"C01"} ELSE {}) \cup (IF c11 THEN {"C11"} ELSE {}) \cup (IF c12 THEN {"C12"} ELSE {})
     \cup (IF c17 THEN {"C17"} ELSE {}) \cup (IF c18 THEN {"C18"} ELSE {})

ObsStep(e) ==
  LET res == Fld(e, "res", "-")
      A == CASE e.op = "create" -> [oA EXCEPT ![e.r] = "new"]
             [] e.op = "poll" -> [oA EXCEPT ![e.r] = IF res \in {"some", "none"} THEN "done"
                                                     ELSE IF res = "pending" THEN "pending" ELSE @]
             [] e.op = "drop" -> [oA EXCEPT ![e.r] = "none"]
             [] OTHER -> oA
      Ful == oFul \/ (e.op = "send" /\ res = "ok") \/ ClosesNow(e)
      LW == CASE e.op = "poll" -> [oLastW EXCEPT ![e.r] = e.w]
              [] e.op = "drop" -> [oLastW EXCEPT ![e.r] = "-"]
              [] OTHER -> oLastW
      W0 == IF e.op \in {"poll", "drop"} THEN [oWoken EXCEPT ![e.r] = FALSE] ELSE oWoken
      \* wakers taken under the lock and invoked after it (`taken`) count like in-lock wake-ups
      ws == Wakes(e) \o (IF "taken" \in DOMAIN e THEN e.taken ELSE <<>>)
  IN
  /\ oA' = A /\ oFul' = Ful /\ oLastW' = LW
  /\ oVal' = IF e.op = "send" /\ res = "ok" THEN e.v ELSE oVal
  /\ oTaken' = (oTaken \/ (e.op = "poll" /\ res = "some"))
  /\ oClosedEv' = (oClosedEv \/ ClosesNow(e))
  /\ oWoken' = [f \in Slots |-> W0[f] \/ (A[f] = "pending" /\
                    \E i \in 1..Len(ws) : ws[i][1] = f /\ ws[i][2] = LW[f])]
  /\ oSenders' = IF e.op \in {"drop_sender", "dec_sender"} THEN oSenders - 1 ELSE oSenders
  /\ oReceivers' = CASE e.op = "clone_receiver" -> oReceivers + 1
                     [] e.op \in {"drop_receiver", "dec_receiver"} -> oReceivers - 1
                     [] OTHER -> oReceivers
  /\ bad' = StepBad(e, A, Ful)

NoBad(id) == id \notin bad
C01 == NoBad("C01")
\* C11: step checks, plus: once the channel is closed (explicitly or by the last handle of a side)
\* every pending future has been woken
C11 == NoBad("C11") /\ (oClosedEv => \A f \in OPending : oWoken[f])
\* C12: step checks, plus: every receiver pending at the send / close has been woken
C12 == NoBad("C12") /\ (oFul => \A f \in OPending : oWoken[f])
C17 == NoBad("C17")
C18 == NoBad("C18")
=============================================================================
