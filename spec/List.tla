--------------------------------- MODULE List ---------------------------------
(***************************************************************************)
(* Link-level model of LinkedList / ListNode                               *)
(* (src/intrusive_double_linked_list.rs), one action per method, each      *)
(* pointer assignment transcribed.  remove(n) of a non-member is allowed   *)
(* for nodes that are in no list (the documented precondition).            *)
(***************************************************************************)
EXTENDS ListObs, Json

VARIABLES head, tail, prev, next, evt
implVars == <<head, tail, prev, next>>
vars == <<implVars, obsVars, evt>>

View == [head |-> head, tail |-> tail, prev |-> prev, next |-> next, oSeq |-> oSeq, bad |-> bad]
Consts == [N |-> N]

Init == /\ head = 0 /\ tail = 0 /\ prev = [n \in Nodes |-> 0] /\ next = [n \in Nodes |-> 0]
        /\ evt = [op |-> "init"] /\ ObsInit

Emit(e) == LET full == e @@ [head |-> head', tail |-> tail', prev |-> prev', next |-> next']
           IN evt' = full /\ ObsStep(full)

RECURSIVE Walk(_, _, _)
Walk(nx, n, fuel) == IF n = 0 \/ fuel = 0 THEN <<>> ELSE <<n>> \o Walk(nx, nx[n], fuel - 1)
Member(n) == InSeq(Walk(next, head, N), n)

AddFront(n) ==
  /\ ~Member(n)
  /\ next' = [next EXCEPT ![n] = head]
  /\ prev' = IF head # 0 THEN [[prev EXCEPT ![n] = 0] EXCEPT ![head] = n] ELSE [prev EXCEPT ![n] = 0]
  /\ head' = n
  /\ tail' = IF tail = 0 THEN n ELSE tail
  /\ Emit([op |-> "add_front", n |-> n])

RemoveFirst ==
  IF head = 0 THEN UNCHANGED implVars /\ Emit([op |-> "remove_first", res |-> "none", n |-> 0])
  ELSE LET h == head IN
       /\ head' = next[h]
       /\ tail' = IF next[h] = 0 THEN 0 ELSE tail
       /\ prev' = IF next[h] # 0 THEN [[prev EXCEPT ![next[h]] = 0] EXCEPT ![h] = 0] ELSE [prev EXCEPT ![h] = 0]
       /\ next' = [next EXCEPT ![h] = 0]
       /\ Emit([op |-> "remove_first", res |-> "some", n |-> h])

RemoveLast ==
  IF tail = 0 THEN UNCHANGED implVars /\ Emit([op |-> "remove_last", res |-> "none", n |-> 0])
  ELSE LET t == tail IN
       /\ tail' = prev[t]
       /\ head' = IF prev[t] = 0 THEN 0 ELSE head
       /\ next' = IF prev[t] # 0 THEN [[next EXCEPT ![prev[t]] = 0] EXCEPT ![t] = 0] ELSE [next EXCEPT ![t] = 0]
       /\ prev' = [prev EXCEPT ![t] = 0]
       /\ Emit([op |-> "remove_last", res |-> "some", n |-> t])

Remove(n) ==
  IF prev[n] = 0 /\ head # n
  THEN UNCHANGED implVars /\ Emit([op |-> "remove", n |-> n, res |-> "false"])
  ELSE /\ head' = IF prev[n] = 0 THEN next[n] ELSE head
       /\ tail' = IF next[n] = 0 THEN prev[n] ELSE tail
       /\ next' = IF prev[n] # 0 THEN [[next EXCEPT ![prev[n]] = next[n]] EXCEPT ![n] = 0] ELSE [next EXCEPT ![n] = 0]
       /\ prev' = IF next[n] # 0 THEN [[prev EXCEPT ![next[n]] = prev[n]] EXCEPT ![n] = 0] ELSE [prev EXCEPT ![n] = 0]
       /\ Emit([op |-> "remove", n |-> n, res |-> "true"])

Drain ==
  /\ head' = 0 /\ tail' = 0 /\ prev' = [n \in Nodes |-> 0] /\ next' = [n \in Nodes |-> 0]
  /\ Emit([op |-> "drain", visited |-> Walk(next, head, N)])
ReverseDrain ==
  /\ head' = 0 /\ tail' = 0 /\ prev' = [n \in Nodes |-> 0] /\ next' = [n \in Nodes |-> 0]
  /\ Emit([op |-> "reverse_drain", visited |-> Walk(prev, tail, N)])

PeekFirst == UNCHANGED implVars /\ Emit([op |-> "peek_first", res |-> IF head = 0 THEN "none" ELSE "some", n |-> head])
PeekLast == UNCHANGED implVars /\ Emit([op |-> "peek_last", res |-> IF tail = 0 THEN "none" ELSE "some", n |-> tail])
IsEmpty == UNCHANGED implVars /\ Emit([op |-> "is_empty", res |-> IF head = 0 THEN "true" ELSE "false"])

Next == \/ \E n \in Nodes : AddFront(n) \/ Remove(n)
        \/ RemoveFirst \/ RemoveLast \/ Drain \/ ReverseDrain \/ PeekFirst \/ PeekLast \/ IsEmpty
Spec == Init /\ [][Next]_vars

Refines == oSeq = Walk(next, head, N) /\ Rev(oSeq) = Walk(prev, tail, N)
EdgeOut == PrintT(<<"EDGE", ToJson([src |-> View, evt |-> evt', dst |-> View'])>>)
ASSUME PrintT(<<"CONST", ToJson(Consts)>>)
=============================================================================
