-------------------------------- MODULE Timer --------------------------------
(***************************************************************************)
(* Implementation-shaped model of GenericTimerService (src/timer/timer.rs) *)
(* including the exact link structure of its intrusive pairing heap        *)
(* (PairingHeapOps), so that the order in which equal deadlines expire and *)
(* every heap shape reachable with K nodes is predicted.                   *)
(*   SetClock(t)   the client's clock advances (monotone)                  *)
(*   Create(f,t)   deadline(t)         Delay(f,d)  delay(d)                *)
(*   Poll(f,w)     TimerFuture::poll -> TimerState::try_wait               *)
(*   PollDone(f)   poll after completion -> panics                         *)
(*   Drop(f)       TimerFuture::drop -> remove_waiter                      *)
(*   Check         check_expirations()                                     *)
(*   NextExp       next_expiration()                                       *)
(***************************************************************************)
EXTENDS TimerObs, PairingHeapOps, Json

CONSTANTS Deadlines,   \* deadlines a client may pass to deadline()
          Delays,      \* delays a client may pass to delay()
          MaxNow       \* the clock runs 0..MaxNow

VARIABLES now, st, fin, expiry, task, heap, evt

implVars == <<now, st, fin, expiry, task, heap>>
vars == <<implVars, obsVars, evt>>

InHeap == {f \in Slots : st[f] = "reg"}
NextOf(h, ex) == IF h.root = Nil THEN 0 - 1 ELSE ex[h.root]

View == [now |-> now, st |-> st, expiry |-> expiry, task |-> task,
         root |-> heap.root, parent |-> heap.parent, prev |-> heap.prev, next |-> heap.next, child |-> heap.child,
         heapq |-> SetToSortedSeq(InHeap), term |-> fin, pub |-> [next |-> NextOf(heap, expiry)],
         oA |-> oA, oLastW |-> oLastW, oWoken |-> oWoken, oDl |-> oDl, oNow |-> oNow, oExp |-> oExp, bad |-> bad]

Consts == [K |-> K, Wk |-> SetToSortedSeq({IF w = "A" THEN 1 ELSE 2 : w \in Wk}),
           Deadlines |-> SetToSortedSeq(Deadlines), Delays |-> SetToSortedSeq(Delays), MaxNow |-> MaxNow]

Init == /\ now = 0
        /\ st = [f \in Slots |-> "none"]
        /\ fin = [f \in Slots |-> FALSE]
        /\ expiry = [f \in Slots |-> 0]
        /\ task = [f \in Slots |-> "-"]
        /\ heap = EmptyHeap(K)
        /\ evt = [op |-> "init"]
        /\ ObsInit

Emit(e) ==
  LET full == e @@ [term |-> SetToSortedSeq({f \in Slots : fin'[f]}),
                    pub |-> [next |-> NextOf(heap', expiry')],
                    q |-> SetToSortedSeq({f \in Slots : st'[f] = "reg"}), nst |-> st']
  IN evt' = full /\ ObsStep(full)

SetClock(t) ==
  /\ t > now /\ t <= MaxNow
  /\ now' = t /\ UNCHANGED <<st, fin, expiry, task, heap>>
  /\ Emit([op |-> "set_clock", t |-> t])

Create(f, t) ==
  /\ st[f] = "none" /\ \A g \in Slots : g < f => st[g] # "none"
  /\ st' = [st EXCEPT ![f] = "unreg"] /\ expiry' = [expiry EXCEPT ![f] = t]
  /\ UNCHANGED <<now, fin, task, heap>>
  /\ Emit([op |-> "create", f |-> f, t |-> t])

\* delay(d) = deadline(now + d), saturating (d >= INF stands for durations beyond the u64 range)
Sat(x) == IF x >= INF THEN INF ELSE x
Delay(f, d) ==
  /\ st[f] = "none" /\ \A g \in Slots : g < f => st[g] # "none"
  /\ st' = [st EXCEPT ![f] = "unreg"] /\ expiry' = [expiry EXCEPT ![f] = Sat(now + d)]
  /\ UNCHANGED <<now, fin, task, heap>>
  /\ Emit([op |-> "delay", f |-> f, d |-> d, res |-> "ok", val |-> Sat(now + d)])

Poll(f, w) ==
  /\ st[f] # "none" /\ ~fin[f]
  /\ CASE st[f] = "unreg" ->
            IF now >= expiry[f]
            THEN /\ st' = [st EXCEPT ![f] = "expired"] /\ fin' = [fin EXCEPT ![f] = TRUE]
                 /\ UNCHANGED <<now, expiry, task, heap>>
                 /\ Emit([op |-> "poll", f |-> f, w |-> w, res |-> "ready"])
            ELSE /\ st' = [st EXCEPT ![f] = "reg"] /\ task' = [task EXCEPT ![f] = w]
                 /\ heap' = HInsert(heap, f, expiry)
                 /\ UNCHANGED <<now, fin, expiry>>
                 /\ Emit([op |-> "poll", f |-> f, w |-> w, res |-> "pending"])
       [] st[f] = "reg" ->
            /\ task' = [task EXCEPT ![f] = w]
            /\ UNCHANGED <<now, st, fin, expiry, heap>>
            /\ Emit([op |-> "poll", f |-> f, w |-> w, res |-> "pending"])
       [] st[f] = "expired" ->
            /\ fin' = [fin EXCEPT ![f] = TRUE]
            /\ UNCHANGED <<now, st, expiry, task, heap>>
            /\ Emit([op |-> "poll", f |-> f, w |-> w, res |-> "ready"])

PollDone(f) ==
  /\ st[f] # "none" /\ fin[f]
  /\ UNCHANGED implVars
  /\ Emit([op |-> "poll_done", f |-> f, res |-> "panic"])

Drop(f) ==
  /\ st[f] # "none"
  /\ heap' = IF st[f] = "reg" THEN HRemove(heap, f, expiry) ELSE heap
  /\ st' = [st EXCEPT ![f] = "none"] /\ fin' = [fin EXCEPT ![f] = FALSE]
  /\ task' = [task EXCEPT ![f] = "-"] /\ expiry' = [expiry EXCEPT ![f] = 0]
  /\ UNCHANGED now
  /\ Emit([op |-> "drop", f |-> f])

\* check_expirations: pop the minimum while it is due
RECURSIVE Expire(_, _, _, _)
Expire(h, s, t, wk) ==
  IF h.root = Nil \/ expiry[h.root] > now THEN [heap |-> h, st |-> s, task |-> t, wakes |-> wk]
  ELSE LET r == h.root IN
       Expire(HRemove(h, r, expiry), [s EXCEPT ![r] = "expired"], [t EXCEPT ![r] = "-"],
              IF t[r] = "-" THEN wk ELSE Append(wk, <<r, t[r]>>))

Check ==
  LET x == Expire(heap, st, task, <<>>) IN
  /\ heap' = x.heap /\ st' = x.st /\ task' = x.task
  /\ UNCHANGED <<now, fin, expiry>>
  /\ Emit([op |-> "check", wakes |-> x.wakes])

NextExp ==
  /\ UNCHANGED implVars
  /\ IF heap.root = Nil THEN Emit([op |-> "next_exp", res |-> "none", val |-> 0])
     ELSE Emit([op |-> "next_exp", res |-> "some", val |-> expiry[heap.root]])

Next == \/ \E t \in 1..MaxNow : SetClock(t)
        \/ \E f \in Slots : \/ \E t \in Deadlines : Create(f, t)
                            \/ \E d \in Delays : Delay(f, d)
                            \/ Drop(f) \/ PollDone(f) \/ \E w \in Wk : Poll(f, w)
        \/ Check \/ NextExp

Spec == Init /\ [][Next]_vars

TypeOK == /\ now \in 0..MaxNow
          /\ st \in [Slots -> {"none", "unreg", "reg", "expired"}]
          /\ task \in [Slots -> Wk \cup {"-"}]
QueueOK == /\ Members(heap, K) = InHeap
           /\ HeapLinksOK(heap, K, expiry)
           /\ \A f \in Slots : st[f] = "reg" => task[f] # "-"
Refines == /\ now = oNow
           /\ \A f \in Slots : /\ (oA[f] = "none") = (st[f] = "none")
                               /\ (oA[f] = "new") = (st[f] = "unreg")
                               /\ (oA[f] = "pending") = (st[f] = "reg" \/ (st[f] = "expired" /\ ~fin[f]))
                               /\ (oA[f] = "done") = fin[f]
                               /\ st[f] # "none" => expiry[f] = oDl[f]
                               /\ (st[f] = "expired" /\ ~fin[f]) = (oA[f] = "pending" /\ oExp[f])

EdgeOut == PrintT(<<"EDGE", ToJson([src |-> View, evt |-> evt', dst |-> View'])>>)
ASSUME PrintT(<<"CONST", ToJson(Consts)>>)
=============================================================================
