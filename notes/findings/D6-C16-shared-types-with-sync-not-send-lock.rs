//! D6 demonstration (safe code, compiles against the tree before the fix, rejected after it).
//!
//! A `lock_api::RawMutex` that is Sync but not Send: it may be used from any thread through a shared
//! reference, but it has to be destroyed on the thread that created it (think of a lock that owns a
//! thread-affine OS resource).  `GenericSharedSemaphoreAcquireFuture<M>` is `Send` for `M: Sync` alone
//! and embeds a reference-counted handle: moved to another thread it can be the last owner, and then
//! the semaphore - and with it the lock - is destroyed there.  The same holds for the shared channel
//! send / receive futures, the shared state-broadcast receive future, and (through `Sync` of the
//! handle plus `clone()`) for `GenericSharedSemaphore` itself.
//!
//! Run (before the fix):  cp this file to harness/examples/d6.rs && cargo run --offline --example d6
//! Output: "lock created on ThreadId(1), destroyed on ThreadId(2)" and exit code 1.

use futures_intrusive::sync::GenericSharedSemaphore;
use std::marker::PhantomData;
use std::sync::atomic::{AtomicBool, AtomicU64, Ordering};

static CREATED_ON: AtomicU64 = AtomicU64::new(0);
static WRONG_THREAD: AtomicBool = AtomicBool::new(false);

fn tid() -> u64 {
    // ThreadId has no stable integer accessor: parse its Debug form
    let s = format!("{:?}", std::thread::current().id());
    s.trim_start_matches("ThreadId(").trim_end_matches(')').parse().unwrap()
}

struct AffineLock {
    held: AtomicBool,
    home: AtomicU64,
    // Sync + !Send
    _p: PhantomData<std::sync::MutexGuard<'static, ()>>,
}

unsafe impl lock_api::RawMutex for AffineLock {
    #[allow(clippy::declare_interior_mutable_const)]
    const INIT: AffineLock = AffineLock { held: AtomicBool::new(false), home: AtomicU64::new(0), _p: PhantomData };
    type GuardMarker = lock_api::GuardNoSend;
    fn lock(&self) {
        if self.home.load(Ordering::SeqCst) == 0 {
            self.home.store(tid(), Ordering::SeqCst);
            CREATED_ON.store(tid(), Ordering::SeqCst);
        }
        while self.held.swap(true, Ordering::Acquire) {}
    }
    fn try_lock(&self) -> bool {
        !self.held.swap(true, Ordering::Acquire)
    }
    unsafe fn unlock(&self) {
        self.held.store(false, Ordering::Release)
    }
}

impl Drop for AffineLock {
    fn drop(&mut self) {
        let home = self.home.load(Ordering::SeqCst);
        if home != 0 && home != tid() {
            println!("lock created on ThreadId({}), destroyed on ThreadId({})", home, tid());
            WRONG_THREAD.store(true, Ordering::SeqCst);
        }
    }
}

fn main() {
    let sem = GenericSharedSemaphore::<AffineLock>::new(false, 1);
    let _ = sem.permits(); // first use on this thread: the lock lives here
    let fut = sem.acquire(1); // embeds a handle
    drop(sem);
    // `fut` is Send although the lock is not: the last owner moves away
    std::thread::spawn(move || drop(fut)).join().unwrap();
    if WRONG_THREAD.load(Ordering::SeqCst) {
        std::process::exit(1);
    }
    println!("not reproduced");
}
