// D5: the send / receive futures of a channel are Send although the channel's
// buffer type is not: the buffer is then mutated on a foreign thread.
use futures_intrusive::buffer::RingBuf;
use futures_intrusive::channel::GenericChannel;
use std::collections::VecDeque;
use std::future::Future;
use std::marker::PhantomData;
use std::pin::Pin;
use std::task::{Context, RawWaker, RawWakerVTable, Waker};
use std::thread::ThreadId;

/// A ring buffer with thread affinity (!Send): it remembers its home thread.
struct NotSendBuf<T>(VecDeque<T>, usize, ThreadId, PhantomData<*mut ()>);
impl<T> RingBuf for NotSendBuf<T> {
    type Item = T;
    fn new() -> Self { Self::with_capacity(0) }
    fn with_capacity(cap: usize) -> Self { NotSendBuf(VecDeque::new(), cap, std::thread::current().id(), PhantomData) }
    fn capacity(&self) -> usize { self.1 }
    fn len(&self) -> usize { self.0.len() }
    fn can_push(&self) -> bool { self.0.len() != self.1 }
    fn push(&mut self, item: T) {
        assert_eq!(self.2, std::thread::current().id(), "!Send buffer mutated on a foreign thread");
        self.0.push_back(item)
    }
    fn pop(&mut self) -> T { self.0.pop_front().unwrap() }
}
fn noop_waker() -> Waker {
    fn c(_: *const ()) -> RawWaker { RawWaker::new(std::ptr::null(), &VT) }
    fn n(_: *const ()) {}
    static VT: RawWakerVTable = RawWakerVTable::new(c, n, n, n);
    unsafe { Waker::from_raw(RawWaker::new(std::ptr::null(), &VT)) }
}
fn main() {
    let ch: &'static GenericChannel<parking_lot::RawMutex, i32, NotSendBuf<i32>> =
        Box::leak(Box::new(GenericChannel::with_capacity(2)));
    let fut = ch.send(7); // created on the home thread of the buffer
    let r = std::thread::spawn(move || {
        // safe code: the future is Send, so it may be polled here
        let mut fut = Box::pin(fut);
        let w = noop_waker();
        let mut cx = Context::from_waker(&w);
        let _ = Pin::new(&mut fut).poll(&mut cx);
    })
    .join();
    match r {
        Ok(()) => println!("no violation observed"),
        Err(_) => { println!("VIOLATION: buffer pushed on a foreign thread"); std::process::exit(1) }
    }
}
