#!/bin/sh
# Builds the conformance harness (fih, probe) offline from files on disk.
set -e
cd "$(dirname "$0")/harness"
CARGO_NET_OFFLINE=true cargo build --offline
tla-sany ../spec/Mutex.tla > /dev/null
echo "setup ok"
