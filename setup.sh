#!/bin/sh
# Builds the conformance harness (fih, fihc, probe) offline from files on disk.
set -e
cd "$(dirname "$0")/harness"
CARGO_NET_OFFLINE=true cargo build --offline
test -x target/debug/fih && test -x target/debug/fihc && test -x target/debug/probe
echo "setup ok"
